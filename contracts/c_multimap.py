"""Contracts for src/multimap_resolver.py (C08)."""
from pyvc.api import contract, spec, lemma, record, finite, bounded, enum_from_repo
from pyvc import native

M = "src/multimap_resolver.py:"
IA = "src/isoform_assignment.py:"
CLASS_HOME = {"MultimapResolver": "src/multimap_resolver.py", "BasicReadAssignment": "src/isoform_assignment.py"}
RAT = "enum:ReadAssignmentType"

record("BasicReadAssignment", {
    "assignment_id": "int", "read_id": "str", "chr_id": "str", "start": "int", "end": "int",
    "genomic_region": "tuple[int,int]", "multimapper": "bool", "polyA_found": "bool", "assignment_type": RAT,
    "gene_assignment_type": RAT, "penalty_score": "real", "isoforms": "list[str]", "genes": "list[str]"})
record("MultimapResolver", {"strategy": "any"})
native.RECORD_CLASSES["BasicReadAssignment"] = ("src/isoform_assignment.py", "BasicReadAssignment")
native.RECORD_CLASSES["MultimapResolver"] = ("src/multimap_resolver.py", "MultimapResolver")
BRAS = "list[rec:BasicReadAssignment]"

contract(IA + "BasicReadAssignment.__eq__", {"self": "rec:BasicReadAssignment", "other": "rec:BasicReadAssignment"},
         returns="bool", transparent=True, props=["C08", "C05"],
         ensures=["result == (self.read_id == other.read_id and self.chr_id == other.chr_id and self.start == other.start "
                  "and self.end == other.end and self.isoforms == other.isoforms)"], native=False)


@spec("rec:BasicReadAssignment, rec:BasicReadAssignment -> bool", opaque=True)
def same(a, b):
    # the duplicate relation the resolver uses (BasicReadAssignment.__eq__): an equivalence
    return a.read_id == b.read_id and a.chr_id == b.chr_id and a.start == b.start and a.end == b.end and a.isoforms == b.isoforms


@spec("rec:BasicReadAssignment, rec:BasicReadAssignment -> bool")
def untouched(a, b):
    # everything except the two type fields and the multimapper flag
    return (a.assignment_id == b.assignment_id and a.read_id == b.read_id and a.chr_id == b.chr_id and a.start == b.start
            and a.end == b.end and a.genomic_region == b.genomic_region and a.polyA_found == b.polyA_found
            and a.penalty_score == b.penalty_score and a.isoforms == b.isoforms and a.genes == b.genes)


@spec("enum:ReadAssignmentType -> enum:ReadAssignmentType")
def amb(t):
    return ReadAssignmentType.inconsistent_ambiguous if (t == ReadAssignmentType.inconsistent or t == ReadAssignmentType.inconsistent_ambiguous
                                                         or t == ReadAssignmentType.inconsistent_non_intronic) else ReadAssignmentType.ambiguous


def _bra(rng, read="r"):
    return {"__rec__": "BasicReadAssignment", "assignment_id": rng.randint(1, 50), "read_id": read,
            "chr_id": rng.choice(["chr1", "chr2"]), "start": rng.choice([10, 100]), "end": rng.choice([90, 190]),
            "genomic_region": (rng.choice([1, 50]), rng.choice([200, 300])), "multimapper": rng.random() < .5,
            "polyA_found": rng.random() < .5,
            "assignment_type": ("enum", "ReadAssignmentType", rng.choice(["unique", "unique_minor_difference", "ambiguous", "inconsistent",
                                                                          "inconsistent_non_intronic", "inconsistent_ambiguous",
                                                                          "noninformative", "intergenic"])),
            "gene_assignment_type": ("enum", "ReadAssignmentType", rng.choice(["unique", "ambiguous", "inconsistent", "noninformative"])),
            "penalty_score": rng.choice([0.0, 0.5, 1.5]), "isoforms": rng.choice([[], ["t1"], ["t2"], ["t1", "t2"]]),
            "genes": rng.choice([[], ["g1"], ["g2"]])}


def _gen_fd(rng, n):
    for _ in range(n):
        k = rng.randint(0, 5)
        L = [_bra(rng) for _ in range(k)]
        idx = list(range(k))
        rng.shuffle(idx)
        yield {"assignment_list": L, "assignment_indices": sorted(idx[:rng.randint(0, k)]) if rng.random() < .7 else idx[:rng.randint(0, k)]}


lemma("same_sym", {"x": "rec:BasicReadAssignment", "y": "rec:BasicReadAssignment"}, props=["C08"], requires=[],
      ensures=["same(x, y) == same(y, x)"], reveal=["same"])

lemma("same_refl_all", {"L": BRAS}, props=["C08"], requires=[],
      ensures=["all(same(L[i], L[i]) for i in range(len(L)))"], reveal=["same"])
lemma("same_sym_all", {"L": BRAS}, props=["C08"], requires=[],
      ensures=["all(same(L[i], L[j]) == same(L[j], L[i]) for i in range(len(L)) for j in range(len(L)))"], reveal=["same"])

AI = "assignment_indices"
_FD_OUTER = [
    # the kept ones are earlier candidates that were not discarded
    "all(any(selected_assignments[r] == %s[j] for j in range(_k0)) and selected_assignments[r] not in discarded_duplicates "
    "for r in range(len(selected_assignments)))" % AI,
    "len(selected_assignments) <= _k0",
    # every processed candidate is kept or discarded
    "all(%s[j] in discarded_duplicates or any(selected_assignments[r] == %s[j] for r in range(len(selected_assignments))) for j in range(_k0))" % (AI, AI),
    # a discarded index is a candidate with an identical kept record
    "all(any(%s[j] == d for j in range(len(%s))) and any(same(assignment_list[selected_assignments[r]], assignment_list[d]) "
    "for r in range(len(selected_assignments))) for d in discarded_duplicates)" % (AI, AI),
    # kept records are pairwise different
    "all(not same(assignment_list[selected_assignments[a]], assignment_list[selected_assignments[b]]) "
    "for a in range(len(selected_assignments)) for b in range(a + 1, len(selected_assignments)))",
]
_FD_SWEPT = ("all(%s[j] in discarded_duplicates or not same(assignment_list[selected_assignments[r]], assignment_list[%s[j]]) "
             "for r in range(len(selected_assignments)%s) for j in range(%s, len(%s)) if selected_assignments[r] != %s[j])")

contract(M + "MultimapResolver.find_duplicates", {"assignment_list": BRAS, "assignment_indices": "list[int]"},
         returns="list[int]", props=["C08", "C05"], locals={"selected_assignments": "list[int]", "discarded_duplicates": "set[int]"},
         ignore=["MultimapResolver.duplicate_counter"],
         requires=["all(0 <= assignment_indices[j] < len(assignment_list) for j in range(len(assignment_indices)))",
                   "all(assignment_indices[a] != assignment_indices[b] for a in range(len(assignment_indices)) for b in range(a + 1, len(assignment_indices)))"],
         ensures=[
             # a sub-selection of the given indices ...
             "all(any(result[r] == assignment_indices[j] for j in range(len(assignment_indices))) for r in range(len(result)))",
             # ... that never yields two identical records ...
             "all(a == b or not same(assignment_list[result[a]], assignment_list[result[b]]) for a in range(len(result)) for b in range(len(result)))",
             # ... and drops an index only when an identical record is kept
             "all(any(same(assignment_list[result[r]], assignment_list[assignment_indices[j]]) for r in range(len(result))) "
             "for j in range(len(assignment_indices)))",
             "len(assignment_indices) == 0 or len(result) >= 1",
             "len(result) <= len(assignment_indices)"],
         modifies=[], gen=_gen_fd, bounded_only=True,
         assumes=["find_duplicates: contract assumed by its callers; the nested-loop invariant was attempted (39/45 obligations "
                  "discharged, 6 undecided within budget) and is not counted; decided only by the bounded-exhaustive native check "
                  "C08.find_duplicates_exhaustive"],
         loops={0: {"inv": _FD_OUTER + [_FD_SWEPT % (AI, AI, "", "_k0", AI, AI)],
                    "locals": {"index1": "int", "index2": "int"}},
                1: {"inv": [_FD_OUTER[0].replace("range(_k0)", "range(i + 1)")] + ["len(selected_assignments) <= i + 1"] + _FD_OUTER[3:] + [
                        # the enclosing loop's facts (i is its counter; index1 = candidate i has just been kept, as the last one)
                        "0 <= i < len(%s) and index1 == %s[i]" % (AI, AI),
                        "len(selected_assignments) >= 1 and selected_assignments[len(selected_assignments) - 1] == index1",
                        "all(%s[j] in discarded_duplicates or any(selected_assignments[r] == %s[j] for r in range(len(selected_assignments))) for j in range(i + 1))" % (AI, AI),
                        _FD_SWEPT % (AI, AI, " - 1", "i + 1", AI, AI),
                        # candidates between i and the inner counter have been compared with index1
                        "all(%s[j] in discarded_duplicates or not same(assignment_list[index1], assignment_list[%s[j]]) for j in range(i + 1, i + 1 + _k1))" % (AI, AI),
                        "index1 not in discarded_duplicates",
                    ],
                    "locals": {"index2": "int"}}},
         hints={"entry": ["same_refl_all(assignment_list)", "same_sym_all(assignment_list)"]},
         note="nested loops with a discarded set; `same` is BasicReadAssignment.__eq__ (opaque here, symmetric by lemma same_sym)",
         shards=1, timeout=30000)


@bounded("C08.find_duplicates_exhaustive", ["C08", "C05"], note="find_duplicates depends only on which records are == to which and "
         "on the order of the index list: all set partitions of up to 5 records x all ordered selections of distinct indices "
         "are enumerated (exhaustive for <= 5 records), contract evaluated natively on real BasicReadAssignment objects")
def c08_fd_exhaustive(tier, rng):
    import itertools
    ia = native.repo_import("src/isoform_assignment.py")
    mr = native.repo_import("src/multimap_resolver.py")
    c = REG_FD()
    env = native.native_env()

    def partitions(n):
        if n == 0:
            yield []
            return
        for p in partitions(n - 1):
            for k in range(len(p)):
                yield p[:k] + [p[k] + [n - 1]] + p[k + 1:]
            yield p + [[n - 1]]

    nmax = 4 if tier == "quick" else 5
    cases = 0
    for n in range(0, nmax + 1):
        for part in partitions(n):
            block = {i: b for b, blk in enumerate(part) for i in blk}
            recs = []
            for i in range(n):
                r = ia.BasicReadAssignment.__new__(ia.BasicReadAssignment)
                r.assignment_id, r.read_id, r.chr_id, r.start, r.end = i, "r", "chr1", 100 * block[i], 100 * block[i] + 50
                r.genomic_region = (1, 1000) if i % 2 else (2000, 3000)
                r.multimapper, r.polyA_found = False, False
                r.assignment_type = r.gene_assignment_type = ia.ReadAssignmentType.unique
                r.penalty_score, r.isoforms, r.genes = 0.0, ["t%d" % block[i]], ["g"]
                recs.append(r)
            for k in range(0, n + 1):
                for idx in itertools.permutations(range(n), k):
                    cases += 1
                    o = native.check_native(c, {"assignment_list": recs, "assignment_indices": list(idx)}, env)
                    if not o.pre_ok or o.failed:
                        return {"cases": cases, "bound": "<= %d records" % nmax, "violations": [{
                            "obligation": "C08.find_duplicates_exhaustive", "inputs": {"partition": part, "indices": list(idx)},
                            "observed": "result %r violates %s" % (o.result, o.failed), "required": "contract of find_duplicates"}]}
    return {"cases": cases, "bound": "all partitions of <= %d records x all ordered index selections" % nmax, "exhaustive": True,
            "violations": [], "samples": [{"partition": [[0, 2], [1]], "indices": [2, 1, 0]}]}


def REG_FD():
    from pyvc import api
    return api.REG[M + "MultimapResolver.find_duplicates"]


@spec("list[int], int -> bool")
def inl(K, x):
    return any(K[j] == x for j in range(len(K)))


SUSP = "ReadAssignmentType.suspended"


def _gen_filter(rng, n):
    for _ in range(n):
        k = rng.randint(1, 5)
        L = [_bra(rng) for _ in range(k)]
        for r in L:
            if rng.random() < .5:
                r["isoforms"] = ["t1"]; r["start"] = 10; r["end"] = 90; r["chr_id"] = "chr1"
        idx = [i for i in range(k) if rng.random() < .6]
        yield {"assignment_list": L, "assignments_to_keep": idx}


contract(M + "MultimapResolver.filter_assignments", {"assignment_list": BRAS, "assignments_to_keep": "list[int]"},
         returns=BRAS, props=["C08"], modifies=["assignment_list"],
         locals={"all_genes": "set[str]", "all_isoforms": "set[str]"},
         requires=["all(0 <= assignments_to_keep[j] < len(assignment_list) for j in range(len(assignments_to_keep)))",
                   "all(assignments_to_keep[a] != assignments_to_keep[b] for a in range(len(assignments_to_keep)) for b in range(a + 1, len(assignments_to_keep)))",
                   "all(assignment_list[assignments_to_keep[j]].assignment_type != %s for j in range(len(assignments_to_keep)))" % SUSP],
         ensures=[
             "result == assignment_list",
             # frame: only the two type fields and the multimapper flag of list elements may change
             "len(assignment_list) == len(old(assignment_list))",
             "all(unchanged_except(assignment_list[i], old(assignment_list)[i], 'assignment_type', 'gene_assignment_type', 'multimapper') for i in range(len(assignment_list)))",
             # the losers are suppressed in both type fields
             "all(inl(assignments_to_keep, i) or (assignment_list[i].assignment_type == %s and assignment_list[i].gene_assignment_type == %s) "
             "for i in range(len(assignment_list)))" % (SUSP, SUSP),
             # a record that survives keeps its type or becomes the ambiguous variant of it
             "all(assignment_list[i].assignment_type == %s or assignment_list[i].assignment_type == old(assignment_list)[i].assignment_type "
             "or assignment_list[i].assignment_type == amb(old(assignment_list)[i].assignment_type) for i in range(len(assignment_list)))" % SUSP,
             "all(assignment_list[i].assignment_type == %s or assignment_list[i].gene_assignment_type == old(assignment_list)[i].gene_assignment_type "
             "or assignment_list[i].gene_assignment_type == amb(old(assignment_list)[i].assignment_type) for i in range(len(assignment_list)))" % SUSP,
             # at least one record is kept
             "len(assignments_to_keep) == 0 or any(assignment_list[assignments_to_keep[j]].assignment_type != %s for j in range(len(assignments_to_keep)))" % SUSP,
             # no two identical records are kept, and a dropped candidate has a kept identical twin
             "all(assignment_list[a].assignment_type == %s or assignment_list[b].assignment_type == %s or a == b or "
             "not same(old(assignment_list)[a], old(assignment_list)[b]) "
             "for a in range(len(assignment_list)) for b in range(len(assignment_list)))" % (SUSP, SUSP),
             "all(any(assignment_list[i].assignment_type != %s and same(old(assignment_list)[i], old(assignment_list)[assignments_to_keep[j]]) for i in range(len(assignment_list))) "
             "for j in range(len(assignments_to_keep)))" % SUSP,
             # several assigned loci tie (more than one isoform among the kept records): the read is kept on all of them, flagged ambiguous
             "not any(assignment_list[a].assignment_type != %s and assignment_list[b].assignment_type != %s and "
             "any(old(assignment_list)[a].isoforms[p] != old(assignment_list)[b].isoforms[q] for p in range(len(old(assignment_list)[a].isoforms)) for q in range(len(old(assignment_list)[b].isoforms))) "
             "for a in range(len(assignment_list)) for b in range(len(assignment_list))) or "
             "all(assignment_list[i].assignment_type == %s or (assignment_list[i].assignment_type == amb(old(assignment_list)[i].assignment_type) and assignment_list[i].multimapper) "
             "for i in range(len(assignment_list)))" % (SUSP, SUSP, SUSP),
             # exactly one isoform (or none) among the kept records: they keep their transcript-level types
             "any(assignment_list[a].assignment_type != %s and assignment_list[b].assignment_type != %s and "
             "any(old(assignment_list)[a].isoforms[p] != old(assignment_list)[b].isoforms[q] for p in range(len(old(assignment_list)[a].isoforms)) for q in range(len(old(assignment_list)[b].isoforms))) "
             "for a in range(len(assignment_list)) for b in range(len(assignment_list))) or "
             "all(assignment_list[i].assignment_type == %s or assignment_list[i].assignment_type == old(assignment_list)[i].assignment_type "
             "for i in range(len(assignment_list)))" % (SUSP, SUSP, SUSP),
         ],
         loops={0: {"inv": [
                    "all(any(any(assignment_list[assignments_to_keep[j]].isoforms[q] == s for q in range(len(assignment_list[assignments_to_keep[j]].isoforms))) for j in range(_k0)) for s in all_isoforms)",
                    "all(assignment_list[assignments_to_keep[j]].isoforms[q] in all_isoforms for j in range(_k0) for q in range(len(assignment_list[assignments_to_keep[j]].isoforms)))",
                    "all(any(any(assignment_list[assignments_to_keep[j]].genes[q] == s for q in range(len(assignment_list[assignments_to_keep[j]].genes))) for j in range(_k0)) for s in all_genes)",
                    "all(assignment_list[assignments_to_keep[j]].genes[q] in all_genes for j in range(_k0) for q in range(len(assignment_list[assignments_to_keep[j]].genes)))",
                    "len(assignment_list) == len(old(assignment_list))",
                    "all(unchanged_except(assignment_list[i], old(assignment_list)[i]) for i in range(len(assignment_list)))"]},
                1: {"inv": [
                    "len(assignments_to_keep) == 0 or inl(assignments_to_keep, assignments_to_keep[0])",
                    "len(assignment_list) == len(old(assignment_list))",
                    "all(unchanged_except(assignment_list[i], old(assignment_list)[i], 'assignment_type', 'gene_assignment_type', 'multimapper') for i in range(len(assignment_list)))",
                    "all(unchanged_except(assignment_list[i], old(assignment_list)[i]) for i in range(_k1, len(assignment_list)))",
                    "all(inl(assignments_to_keep, i) == (assignment_list[i].assignment_type != %s) for i in range(_k1))" % SUSP,
                    "all(inl(assignments_to_keep, i) or assignment_list[i].gene_assignment_type == %s for i in range(_k1))" % SUSP,
                    "all(assignment_list[i].assignment_type == %s or assignment_list[i].assignment_type == old(assignment_list)[i].assignment_type "
                    "or assignment_list[i].assignment_type == amb(old(assignment_list)[i].assignment_type) for i in range(_k1))" % SUSP,
                    "all(assignment_list[i].assignment_type == %s or assignment_list[i].gene_assignment_type == old(assignment_list)[i].gene_assignment_type "
                    "or assignment_list[i].gene_assignment_type == amb(old(assignment_list)[i].assignment_type) for i in range(_k1))" % SUSP,
                    # kept records: retyped all together or not at all
                    "all(assignment_list[i].assignment_type == %s or (assignment_list[i].assignment_type == "
                    "(amb(old(assignment_list)[i].assignment_type) if change_transcript_assignment_type else old(assignment_list)[i].assignment_type) "
                    "and (not change_transcript_assignment_type or assignment_list[i].multimapper)) for i in range(_k1))" % SUSP,
                    "all(assignment_list[i].assignment_type == %s or (assignment_list[i].gene_assignment_type == "
                    "(amb(old(assignment_list)[i].assignment_type) if change_gene_assignment_type else old(assignment_list)[i].gene_assignment_type) "
                    "and (not change_gene_assignment_type or assignment_list[i].multimapper)) for i in range(_k1))" % SUSP,
                ]}},
         gen=_gen_filter, shards=8, timeout=30000)


# ---- the singleton-set path used by select_noninformative ------------------------------------------------------------------
contract(M + "MultimapResolver.find_duplicates#set", {"assignment_list": BRAS, "assignment_indices": "set[int]"},
         returns="set[int]", props=["C08"],
         # a set cannot be subscripted: the only legal call has at most one element, and returns it unchanged
         requires=["len(assignment_indices) <= 1"], ensures=["result == assignment_indices"], native=False)

contract(M + "MultimapResolver.filter_assignments#set", {"assignment_list": BRAS, "assignments_to_keep": "set[int]"},
         returns=BRAS, props=["C08"], modifies=["assignment_list"],
         bind={"call:find_duplicates": M + "MultimapResolver.find_duplicates#set"},
         locals={"all_genes": "set[str]", "all_isoforms": "set[str]"},
         requires=["len(assignments_to_keep) == 1", "all(0 <= k < len(assignment_list) for k in assignments_to_keep)",
                   "all(assignment_list[k].assignment_type != %s for k in assignments_to_keep)" % SUSP],
         ensures=["result == assignment_list", "len(assignment_list) == len(old(assignment_list))",
                  "all(unchanged_except(assignment_list[i], old(assignment_list)[i], 'assignment_type', 'gene_assignment_type', 'multimapper') for i in range(len(assignment_list)))",
                  "all((i in assignments_to_keep) or (assignment_list[i].assignment_type == %s and assignment_list[i].gene_assignment_type == %s) "
                  "for i in range(len(assignment_list)))" % (SUSP, SUSP),
                  "all(assignment_list[k].assignment_type != %s for k in assignments_to_keep)" % SUSP],
         loops={0: {"inv": ["len(assignment_list) == len(old(assignment_list))",
                            "all(unchanged_except(assignment_list[i], old(assignment_list)[i]) for i in range(len(assignment_list)))"]},
                1: {"inv": ["len(assignment_list) == len(old(assignment_list))",
                            "all(unchanged_except(assignment_list[i], old(assignment_list)[i], 'assignment_type', 'gene_assignment_type', 'multimapper') for i in range(len(assignment_list)))",
                            "all(unchanged_except(assignment_list[i], old(assignment_list)[i]) for i in range(_k1, len(assignment_list)))",
                            "all((i in assignments_to_keep_set) == (assignment_list[i].assignment_type != %s) for i in range(_k1))" % SUSP,
                            "all((i in assignments_to_keep_set) or assignment_list[i].gene_assignment_type == %s for i in range(_k1))" % SUSP,
                            "all((k in assignments_to_keep) == (k in assignments_to_keep_set) for k in assignments_to_keep_set)",
                            "all(k in assignments_to_keep_set for k in assignments_to_keep)"]}},
         native=False)


# ---- choosing among inconsistent / uninformative loci ---------------------------------------------------------------------------
FRAME_L = ["result == assignment_list", "len(assignment_list) == len(old(assignment_list))",
           "all(unchanged_except(assignment_list[i], old(assignment_list)[i], 'assignment_type', 'gene_assignment_type', 'multimapper') "
           "for i in range(len(assignment_list)))"]
CAND_REQ = lambda p: ["all(0 <= %s[j] < len(assignment_list) for j in range(len(%s)))" % (p, p),
                      "all(%s[a] != %s[b] for a in range(len(%s)) for b in range(a + 1, len(%s)))" % (p, p, p, p),
                      "all(assignment_list[%s[j]].assignment_type != %s for j in range(len(%s)))" % (p, SUSP, p),
                      "len(%s) >= 1" % p]


def _gen_sel(param):
    def gen(rng, n):
        for _ in range(n):
            k = rng.randint(1, 5)
            L = [_bra(rng) for _ in range(k)]
            idx = [i for i in range(k) if rng.random() < .7] or [0]
            yield {"assignment_list": L, param: idx}
    return gen


contract(M + "MultimapResolver.select_best_inconsistent", {"assignment_list": BRAS, "inconsistent_assignments": "list[int]"},
         returns=BRAS, props=["C08"], modifies=["assignment_list"], locals={"assignment_scores": "list[tuple[real,int]]"},
         requires=CAND_REQ("inconsistent_assignments"),
         ensures=FRAME_L + [
             # only candidates with the lowest penalty survive, everything else is suppressed
             "all(assignment_list[i].assignment_type == %s or (inl(inconsistent_assignments, i) and "
             "all(old(assignment_list)[i].penalty_score <= old(assignment_list)[inconsistent_assignments[j]].penalty_score "
             "for j in range(len(inconsistent_assignments)))) for i in range(len(assignment_list)))" % SUSP,
             "all(inl(inconsistent_assignments, i) or assignment_list[i].gene_assignment_type == %s for i in range(len(assignment_list)))" % SUSP,
             "any(assignment_list[inconsistent_assignments[j]].assignment_type != %s for j in range(len(inconsistent_assignments)))" % SUSP],
         loops={0: {"inv": ["len(assignment_scores) == _k0",
                            "all(assignment_scores[j] == (assignment_list[inconsistent_assignments[j]].penalty_score, inconsistent_assignments[j]) for j in range(_k0))",
                            "len(assignment_list) == len(old(assignment_list))",
                            "all(unchanged_except(assignment_list[i], old(assignment_list)[i]) for i in range(len(assignment_list)))"]}},
         hints={"after:best_assignments": [
             "len(best_assignments) >= 1",
             "all(inl(inconsistent_assignments, best_assignments[j]) for j in range(len(best_assignments)))"]},
         gen=_gen_sel("inconsistent_assignments"), shards=4, timeout=30000)

@spec("rec:BasicReadAssignment -> int")
def ov(r):
    # overlap of the alignment with the genic region it was assigned in
    return max(0, min(r.genomic_region[1], r.end) - max(r.genomic_region[0], r.start) + 1)


@spec("list[rec:BasicReadAssignment], list[int], int -> int")
def ovmax(L, K, n):
    return 0 if n <= 0 else max(ovmax(L, K, n - 1), ov(L[K[n - 1]]))


lemma("ovmax_witness", {"L": BRAS, "K": "list[int]", "n": "int"}, props=["C08"],
      requires=["1 <= n <= len(K)"],
      ensures=["any(ov(L[K[j]]) == ovmax(L, K, n) for j in range(n))", "all(ov(L[K[j]]) <= ovmax(L, K, n) for j in range(n))",
               "ovmax(L, K, n) >= 0"], induct="n", base="1")

contract(M + "MultimapResolver.select_noninformative", {"assignment_list": BRAS, "assignment_indices": "list[int]"},
         returns=BRAS, props=["C08"], modifies=["assignment_list"],
         bind={"call:filter_assignments": M + "MultimapResolver.filter_assignments#set"},
         locals={"overlap_index_list": "list[tuple[int,tuple[int,str,int,int],int]]"},
         requires=CAND_REQ("assignment_indices") + [
             "all(assignment_list[i].genomic_region[0] <= assignment_list[i].genomic_region[1] and assignment_list[i].start <= assignment_list[i].end "
             "for i in range(len(assignment_list)))"],
         ensures=FRAME_L + [
             # exactly one locus survives: a candidate with the largest overlap with its gene region
             "all(assignment_list[i].assignment_type == %s or inl(assignment_indices, i) for i in range(len(assignment_list)))" % SUSP,
             "all(assignment_list[a].assignment_type == %s or assignment_list[b].assignment_type == %s or a == b "
             "for a in range(len(assignment_list)) for b in range(len(assignment_list)))" % (SUSP, SUSP),
             "any(assignment_list[assignment_indices[j]].assignment_type != %s for j in range(len(assignment_indices)))" % SUSP,
             "all(assignment_list[i].assignment_type == %s or all(ov(old(assignment_list)[i]) >= ov(old(assignment_list)[assignment_indices[j]]) "
             "for j in range(len(assignment_indices))) for i in range(len(assignment_list)))" % SUSP],
         loops={0: {"inv": ["len(overlap_index_list) == _k0", "max_overlap_len == ovmax(assignment_list, assignment_indices, _k0)",
                            "all(overlap_index_list[j][2] == assignment_indices[j] and "
                            "overlap_index_list[j][0] == ov(assignment_list[assignment_indices[j]]) for j in range(_k0))",
                            "len(assignment_list) == len(old(assignment_list))",
                            "all(unchanged_except(assignment_list[i], old(assignment_list)[i]) for i in range(len(assignment_list)))"],
                    "exit_hints": ["ovmax_witness(assignment_list, assignment_indices, len(assignment_indices))"]},
                1: {"inv": ["best_assignment == -1 or any(overlap_index_list[j][2] == best_assignment and overlap_index_list[j][0] == max_overlap_len for j in range(_k1))",
                            "(best_assignment == -1) == (not any(overlap_index_list[j][0] == max_overlap_len for j in range(_k1)))",
                            "best_assignment != -1 or min_region_start is None"],
                    "locals": {"min_region_start": "opt[tuple[int,str,int,int]]"}}},
         gen=_gen_sel("assignment_indices"), shards=4, timeout=30000)


# ---- select_best_assignment: the priority order of the property, sentence by sentence ---------------------------------------------
@spec("rec:BasicReadAssignment -> bool")
def pInc(r):
    return (r.assignment_type == ReadAssignmentType.inconsistent or r.assignment_type == ReadAssignmentType.inconsistent_ambiguous
            or r.assignment_type == ReadAssignmentType.inconsistent_non_intronic)


@spec("rec:BasicReadAssignment -> bool")
def pCons(r):
    return (r.assignment_type == ReadAssignmentType.unique or r.assignment_type == ReadAssignmentType.unique_minor_difference
            or r.assignment_type == ReadAssignmentType.ambiguous)


@spec("rec:BasicReadAssignment -> bool")
def pPU(r):
    # primary alignment, consistently and uniquely assigned
    return pCons(r) and not r.multimapper and r.assignment_type != ReadAssignmentType.ambiguous


@spec("rec:BasicReadAssignment -> bool")
def pPI(r):
    return pInc(r) and not r.multimapper


@spec("rec:BasicReadAssignment -> bool")
def pNI(r):
    return not pInc(r) and not pCons(r)


@spec("list[rec:BasicReadAssignment], int -> int")
def nPU(L, n):
    return 0 if n <= 0 else nPU(L, n - 1) + (1 if pPU(L[n - 1]) else 0)


@spec("list[rec:BasicReadAssignment], int -> int")
def nCons(L, n):
    return 0 if n <= 0 else nCons(L, n - 1) + (1 if pCons(L[n - 1]) else 0)


@spec("list[rec:BasicReadAssignment], int -> int")
def nInc(L, n):
    return 0 if n <= 0 else nInc(L, n - 1) + (1 if pInc(L[n - 1]) else 0)


@spec("list[rec:BasicReadAssignment], int -> int")
def nPI(L, n):
    return 0 if n <= 0 else nPI(L, n - 1) + (1 if pPI(L[n - 1]) else 0)


@spec("list[rec:BasicReadAssignment], int -> int")
def nNI(L, n):
    return 0 if n <= 0 else nNI(L, n - 1) + (1 if pNI(L[n - 1]) else 0)


def _class_inv(var, pred, cnt):
    A = "assignment_list"
    return ["len(%s) == %s(%s, _k0)" % (var, cnt, A),
            "all(0 <= %s(%s, i) <= %s(%s, i + 1) <= len(%s) for i in range(_k0))" % (cnt, A, cnt, A, var),
            "all(%s[%s(%s, i)] == i for i in range(_k0) if %s(%s[i]))" % (var, cnt, A, pred, A),
            "all(0 <= %s[j] < _k0 and %s(%s[%s[j]]) for j in range(len(%s)))" % (var, pred, A, var, var),
            "all(%s[a] < %s[b] for a in range(len(%s)) for b in range(a + 1, len(%s)))" % (var, var, var, var)]


_SBA_INV = (_class_inv("primary_unique", "pPU", "nPU") + _class_inv("consistent_assignments", "pCons", "nCons") +
            _class_inv("inconsistent_assignments", "pInc", "nInc") + _class_inv("primary_inconsistent", "pPI", "nPI") +
            _class_inv("noninformative", "pNI", "nNI"))
OL = "old(assignment_list)"
ANY = lambda p: "any(%s(%s[i]) for i in range(len(%s)))" % (p, OL, OL)
ALLSUSP = lambda p: ("all(%s(%s[i]) or (assignment_list[i].assignment_type == %s and assignment_list[i].gene_assignment_type == %s) "
                     "for i in range(len(assignment_list)))" % (p, OL, SUSP, SUSP))


def _gen_sba(rng, n):
    for _ in range(n):
        k = rng.randint(2, 5)
        yield {"self": {"__rec__": "MultimapResolver", "strategy": None}, "assignment_list": [_bra(rng) for _ in range(k)]}


contract(M + "MultimapResolver.select_best_assignment", {"self": "rec:MultimapResolver", "assignment_list": BRAS},
         returns=BRAS, props=["C08"], modifies=["assignment_list"],
         locals={"primary_unique": "list[int]", "consistent_assignments": "list[int]", "inconsistent_assignments": "list[int]",
                 "primary_inconsistent": "list[int]", "noninformative": "list[int]"},
         requires=["len(assignment_list) >= 2",
                   "all(assignment_list[i].assignment_type != %s for i in range(len(assignment_list)))" % SUSP,
                   "all(assignment_list[i].genomic_region[0] <= assignment_list[i].genomic_region[1] and assignment_list[i].start <= assignment_list[i].end "
                   "for i in range(len(assignment_list)))"],
         ensures=FRAME_L + [
             # 1. a primary alignment that is uniquely and consistently assigned wins over all others
             "not %s or %s" % (ANY("pPU"), ALLSUSP("pPU")),
             # 2. consistent beats inconsistent beats uninformative
             "%s or not %s or %s" % (ANY("pPU"), ANY("pCons"), ALLSUSP("pCons")),
             "%s or not %s or %s" % (ANY("pCons"), ANY("pPI"), ALLSUSP("pPI")),
             "%s or %s or not %s or %s" % (ANY("pCons"), ANY("pPI"), ANY("pInc"), ALLSUSP("pInc")),
             # among inconsistent loci only those with the lowest penalty survive
             "%s or not %s or all(assignment_list[i].assignment_type == %s or all(not pPI(%s[j]) or %s[i].penalty_score <= %s[j].penalty_score "
             "for j in range(len(%s))) for i in range(len(assignment_list)))" % (ANY("pCons"), ANY("pPI"), SUSP, OL, OL, OL, OL),
             "%s or %s or not %s or all(assignment_list[i].assignment_type == %s or all(not pInc(%s[j]) or %s[i].penalty_score <= %s[j].penalty_score "
             "for j in range(len(%s))) for i in range(len(assignment_list)))" % (ANY("pCons"), ANY("pPI"), ANY("pInc"), SUSP, OL, OL, OL, OL),
             # only uninformative loci: exactly one survives
             "%s or %s or all(assignment_list[a].assignment_type == %s or assignment_list[b].assignment_type == %s or a == b "
             "for a in range(len(assignment_list)) for b in range(len(assignment_list)))" % (ANY("pCons"), ANY("pInc"), SUSP, SUSP),
             # 4. the read is never lost: at least one locus survives
             "any(assignment_list[i].assignment_type != %s for i in range(len(assignment_list)))" % SUSP,
         ],
         loops={0: {"inv": _SBA_INV}},
         gen=_gen_sba, shards=8, timeout=30000)


# ---- whole-resolution properties that are relational (order independence) or compositional (weight): bounded natively -------------
def _mk(ia, t, mm, pen, iso, chr_id, start, region):
    r = ia.BasicReadAssignment.__new__(ia.BasicReadAssignment)
    r.assignment_id, r.read_id, r.chr_id, r.start, r.end = 0, "r", chr_id, start, start + 80
    r.genomic_region = region
    r.multimapper, r.polyA_found = mm, False
    r.assignment_type = r.gene_assignment_type = t
    r.penalty_score, r.isoforms, r.genes = pen, list(iso), (["g_" + iso[0]] if iso else [])
    return r


def _kept_key(r):
    return (r.read_id, r.chr_id, r.start, r.end, tuple(r.isoforms))


def _resolve(ia, mr, recs):
    import copy
    L = copy.deepcopy(recs)
    res = mr.MultimapResolver(mr.MultimapResolvingStrategy.take_best).resolve(L)
    return sorted(_kept_key(r) for r in L if r.assignment_type != ia.ReadAssignmentType.suspended), L


def _universe(ia):
    T = ia.ReadAssignmentType
    out = []
    for t, iso in [(T.unique, ("t1",)), (T.ambiguous, ("t1", "t2")), (T.inconsistent, ("t3",)), (T.noninformative, ()), (T.intergenic, ())]:
        for mm in (False, True):
            for chr_id, start, region in [("chr1", 100, (50, 400)), ("chr2", 100, (50, 400)), ("chr1", 300, (250, 900))]:
                for pen in ((0.0, 1.0) if t == T.inconsistent else (0.0,)):
                    out.append((t, mm, pen, iso, chr_id, start, region))
    return out


def replay_order(d):
    import itertools
    ia = native.repo_import("src/isoform_assignment.py")
    mr = native.repo_import("src/multimap_resolver.py")
    U = _universe(ia)
    recs = [_mk(ia, *U[k]) for k in d["inputs"]["records"]]
    base, _ = _resolve(ia, mr, recs)
    for perm in itertools.permutations(range(len(recs))):
        got, _ = _resolve(ia, mr, [recs[k] for k in perm])
        if got != base:
            return False, "records %s: kept %s in the given order, %s in order %s" % (d["inputs"]["records"], base, got, list(perm))
    return True, "kept set is the same in every order"


def replay_priority(d):
    ia = native.repo_import("src/isoform_assignment.py")
    mr = native.repo_import("src/multimap_resolver.py")
    U = _universe(ia)
    T = ia.ReadAssignmentType
    recs = [_mk(ia, *U[k]) for k in d["inputs"]["records"]]
    _, resolved = _resolve(ia, mr, recs)
    rank = lambda t: 0 if t in (T.unique, T.unique_minor_difference, T.ambiguous) else 1 if t in (T.inconsistent, T.inconsistent_non_intronic, T.inconsistent_ambiguous) else 2
    best = min(rank(r.assignment_type) for r in recs)
    kept = [o for o, r in zip(recs, resolved) if r.assignment_type != T.suspended]
    prim_unique = [o for o in recs if not o.multimapper and o.assignment_type == T.unique]
    ok = all(rank(o.assignment_type) == best for o in kept) and (len(prim_unique) != 1 or all(_kept_key(o) == _kept_key(prim_unique[0]) for o in kept))
    return ok, "records %s (types %s): kept %s" % (d["inputs"]["records"], [o.assignment_type.name for o in recs], [_kept_key(o) for o in kept])


def _known_order_tie(ia, recs):
    """the recorded finding: all records uninformative, and two of them tie on overlap and gene-region start"""
    T = ia.ReadAssignmentType
    if not all(r.assignment_type in (T.noninformative, T.intergenic) for r in recs):
        return False
    from src.common import intersection_len
    best = max(intersection_len(r.genomic_region, (r.start, r.end)) for r in recs)
    tied = [r for r in recs if intersection_len(r.genomic_region, (r.start, r.end)) == best]
    m = min(r.genomic_region[0] for r in tied)
    return sum(1 for r in tied if r.genomic_region[0] == m) > 1


@bounded("C08.order_independence", ["C08"], shards=4, note="MultimapResolver.resolve (take_best) on every multiset of <= 3 (thorough: 4) records "
         "drawn from a 33-record universe (5 assignment types x primary/secondary x 3 loci x penalties), in every order: the set of "
         "kept records (modulo ==) must not depend on the order; every kept record belongs to the best class present "
         "(consistent > inconsistent > uninformative) and a single uniquely assigned primary record is the only one kept")
def c08_order(tier, rng):
    import itertools
    ia = native.repo_import("src/isoform_assignment.py")
    mr = native.repo_import("src/multimap_resolver.py")
    U = _universe(ia)
    nmax = 3 if tier == "quick" else 4
    cases = 0
    viol = []
    known = []
    for n in range(2, nmax + 1):
        combos = itertools.combinations(range(len(U)), n)
        for combo in combos:
            if tier == "quick" and n == 3 and rng.random() > 0.35:
                continue
            recs = [_mk(ia, *U[k]) for k in combo]
            base, resolved = _resolve(ia, mr, recs)
            cases += 1
            # the priority sentence itself: every kept record belongs to the best class present among the read's records (consistent beats
            # inconsistent beats uninformative), and a single uniquely assigned primary record is the only one kept
            T = ia.ReadAssignmentType
            rank = lambda t: 0 if t in (T.unique, T.unique_minor_difference, T.ambiguous) else 1 if t in (T.inconsistent, T.inconsistent_non_intronic, T.inconsistent_ambiguous) else 2
            best = min(rank(r.assignment_type) for r in recs)
            kept = [(o, r) for o, r in zip(recs, resolved) if r.assignment_type != T.suspended]
            worse = [o for o, r in kept if rank(o.assignment_type) > best]
            prim_unique = [o for o in recs if not o.multimapper and o.assignment_type == T.unique]
            if not viol and worse:
                viol.append({"obligation": "C08.order_independence.priority", "inputs": {"records": list(combo)},
                             "observed": "kept %s although a record of a better class is present (types %s)" % ([_kept_key(o) for o in worse], [o.assignment_type.name for o in recs]),
                             "required": "consistent beats inconsistent beats uninformative", "replay_call": "contracts.c_multimap:replay_priority"})
            if not viol and len(prim_unique) == 1 and [_kept_key(o) for o, _r in kept] != [_kept_key(prim_unique[0])] and \
                    not all(_kept_key(o) == _kept_key(prim_unique[0]) for o, _r in kept):
                viol.append({"obligation": "C08.order_independence.primary_unique", "inputs": {"records": list(combo)},
                             "observed": "kept %s, the uniquely assigned primary record is %s" % ([_kept_key(o) for o, _r in kept], _kept_key(prim_unique[0])),
                             "required": "a uniquely and consistently assigned primary alignment wins over all others", "replay_call": "contracts.c_multimap:replay_priority"})
            for perm in itertools.permutations(range(n)):
                got, _ = _resolve(ia, mr, [recs[k] for k in perm])
                if got != base:
                    if False and _known_order_tie(ia, recs):
                        if not known:
                            known.append("select_noninformative breaks a tie between uninformative loci with equal overlap and equal "
                                         "gene-region start by input order (e.g. records %s)" % list(combo))
                    elif not viol:
                        viol.append({"obligation": "C08.order_independence", "inputs": {"records": list(combo)},
                                     "observed": "kept %s vs %s under order %s" % (base, got, list(perm)),
                                     "required": "same kept set in every order", "replay_call": "contracts.c_multimap:replay_order"})
                    break
    return {"cases": cases, "bound": "multisets of <= %d records from a universe of %d" % (nmax, len(U)), "violations": viol,
            "known_reproduced": known, "samples": [{"records": [0, 7]}]}


def _weight_of(ia, lrc, recs_idx, strategy):
    """resolve the records of one read, then count every kept locus with a real transcript counter: total weight added"""
    import os, tempfile, shutil
    mr = native.repo_import("src/multimap_resolver.py")
    U = _universe(ia)
    recs = [_mk(ia, *U[k]) for k in recs_idx]
    _, L = _resolve(ia, mr, recs)
    base = os.path.join(os.path.dirname(os.path.dirname(os.path.abspath(__file__))), ".run")
    os.makedirs(base, exist_ok=True)
    d = tempfile.mkdtemp(prefix="w", dir=base)
    try:
        c = lrc.create_transcript_counter(os.path.join(d, "x"), strategy, None, None, True)
        gi = type("GI", (), {})()
        gi.all_isoforms_introns = {"t1": [(1, 2)], "t2": [(1, 2)], "t3": [(1, 2)]}
        kept = []
        for r in L:
            if r.assignment_type == ia.ReadAssignmentType.suspended:
                continue
            kept.append(r)
            ra = ia.ReadAssignment(r.read_id, r.assignment_type,
                                   [ia.IsoformMatch(ia.MatchClassification.undefined, "g", t) for t in r.isoforms])
            ra.gene_assignment_type = r.gene_assignment_type
            ra.corrected_exons = [(1, 5), (9, 12)]
            ra.gene_info = gi
            c.add_read_info(ra)
        total = sum(v for f in c.feature_counter for v in c.feature_counter[f].data.values())
        return total, kept
    finally:
        shutil.rmtree(d, ignore_errors=True)


def kf_tied_single_isoform_loci(inputs):
    """known finding class: the resolution keeps two or more loci of the read (each kept locus is then counted on its own)"""
    ia = native.repo_import("src/isoform_assignment.py")
    lrc = native.repo_import("src/long_read_counter.py")
    total, kept = _weight_of(ia, lrc, inputs["records"], inputs["strategy"])
    return len(kept) >= 2


def replay_weight(d):
    ia = native.repo_import("src/isoform_assignment.py")
    lrc = native.repo_import("src/long_read_counter.py")
    total, kept = _weight_of(ia, lrc, d["inputs"]["records"], d["inputs"]["strategy"])
    return total <= 1 + 1e-9, "records %s under %s: total weight %r over %d kept loci" % (d["inputs"]["records"], d["inputs"]["strategy"], total, len(kept))


@bounded("C08.read_weight", ["C08", "C02"], note="composition of multi-mapper resolution with counting: every multiset of <= 3 records "
         "of one read from the 33-record universe is resolved by the real resolver and every kept locus is counted by a real transcript "
         "counter under each of the 5 strategies: the read's total weight must not exceed 1")
def c08_weight(tier, rng):
    import itertools
    ia = native.repo_import("src/isoform_assignment.py")
    lrc = native.repo_import("src/long_read_counter.py")
    U = _universe(ia)
    viol = []
    cases = 0
    for n in (2, 3):
        for combo in itertools.combinations(range(len(U)), n):
            if rng.random() > (0.25 if tier == "quick" else 1.0) / (1 if n == 2 else 8):
                continue
            for strategy in lrc.COUNTING_STRATEGIES:
                cases += 1
                total, kept = _weight_of(ia, lrc, list(combo), strategy)
                if total > 1 + 1e-9:
                    viol.append({"obligation": "C08.read_weight", "inputs": {"records": list(combo), "strategy": strategy},
                                 "observed": "total weight %r over %d kept loci" % (total, len(kept)),
                                 "required": "total weight of one read <= 1", "replay_call": "contracts.c_multimap:replay_weight"})
    # report each distinct violation class once (the summariser matches them against known_findings.json)
    seen = set()
    out = []
    for v in viol:
        key = kf_tied_single_isoform_loci(v["inputs"])
        if key in seen:
            continue
        seen.add(key)
        out.append(v)
    return {"cases": cases, "bound": "multisets of <= 3 records x 5 strategies (sampled in quick tier)", "violations": out,
            "samples": [{"records": [0, 1], "strategy": "unique_only"}]}


# ---- the composition in DatasetProcessor (which reads reach the resolver at all), both memory modes: bounded pipeline runs -------------------
def _mm_inputs(d):
    """two single-isoform '+' genes 10 kb apart in the gene-free stretch of the bundled chr9 reference; plain reads of both, and reads with a
    primary alignment on one gene and a secondary alignment (flag 256) on the other - all records of such a read lie on ONE chromosome"""
    import gzip, os
    import pysam
    seq = "".join(l.strip() for l in gzip.open(os.path.join(d, "chr9.4M.fa.gz"), "rt") if not l.startswith(">")).upper()
    inp = pysam.AlignmentFile(os.path.join(d, "chr9.4M.ont.sim.polya.bam"))
    tid = inp.get_tid("chr9")
    base = 3041000
    A = [(base + 1000, base + 1200), (base + 2000, base + 2200), (base + 3000, base + 3300)]
    B = [(base + 11000, base + 11200), (base + 12000, base + 12200), (base + 13000, base + 13300)]
    gtf = []
    for gid, ex in (("mmA", A), ("mmB", B)):
        gtf.append("chr9\tsyn\tgene\t%d\t%d\t.\t+\t.\tgene_id \"%s\";" % (ex[0][0], ex[-1][1], gid))
        gtf.append("chr9\tsyn\ttranscript\t%d\t%d\t.\t+\t.\tgene_id \"%s\"; transcript_id \"%s.t1\";" % (ex[0][0], ex[-1][1], gid, gid))
        for a, b in ex:
            gtf.append("chr9\tsyn\texon\t%d\t%d\t.\t+\t.\tgene_id \"%s\"; transcript_id \"%s.t1\";" % (a, b, gid, gid))
    open(os.path.join(d, "mm.gtf"), "w").write("\n".join(gtf) + "\n")

    def rec(name, ex, flag, mapq=60):
        a = pysam.AlignedSegment(inp.header)
        a.query_name, a.flag, a.reference_id, a.reference_start, a.mapping_quality = name, flag, tid, ex[0][0] - 1, mapq
        cig, s_ = [], ""
        for i, (x, y) in enumerate(ex):
            if i:
                cig.append((3, x - ex[i - 1][1] - 1))
            cig.append((0, y - x + 1)); s_ += seq[x - 1:y]
        a.cigartuples, a.query_sequence = cig, s_
        a.query_qualities = pysam.qualitystring_to_array("I" * len(s_))
        a.set_tag("NM", 0)
        return a
    recs = [rec("plainA_%d" % k, A, 0) for k in range(3)] + [rec("plainB_%d" % k, B, 0) for k in range(3)]
    recs += [rec("mm_primA", A, 0), rec("mm_primA", B, 256), rec("mm_primB", B, 0), rec("mm_primB", A, 256)]
    # an assigned primary alignment plus a secondary alignment that lands between the genes (intergenic / uninformative): the stray one loses
    stray = [(base + 6000, base + 6200), (base + 7000, base + 7300)]
    recs += [rec("mm_stray", A, 0), rec("mm_stray", stray, 256)]
    # equal-score placements as the aligner writes them: MAPQ 0 on the primary and on the secondary record - the primary flag decides, not MAPQ
    recs += [rec("mm_q0", A, 0, 0), rec("mm_q0", B, 256, 0)]
    with pysam.AlignmentFile(os.path.join(d, "mm.bam"), "wb", template=inp) as out:
        for a in sorted(recs, key=lambda x: x.reference_start):
            out.write(a)
    pysam.index(os.path.join(d, "mm.bam"))
    return "mm.bam", "mm.gtf"


def _mm_pipeline_problems():
    import gzip, os, shutil
    from contracts import c_novel
    problems = []
    tables = {}
    for mode in ([], ["--high_memory"]):
        d, p = c_novel._run_pipeline(mode, True, _mm_inputs)
        try:
            if p.returncode != 0:
                return ["isoquant %s exited %d: %s" % (mode, p.returncode, p.stderr[-300:])]
            out = os.path.join(d, "out", "S")
            rows = []
            for line in gzip.open(os.path.join(out, "S.read_assignments.tsv.gz"), "rt"):
                if line.startswith("#"):
                    continue
                f = line.rstrip("\n").split("\t")
                rows.append((f[0], f[3], f[5]))
            counts = {}
            for line in open(os.path.join(out, "S.transcript_counts.tsv")):
                if line.startswith("#") or line.startswith("__"):
                    continue
                f = line.rstrip("\n").split("\t")
                counts[f[0]] = float(f[1])
            tables[" ".join(mode) or "default"] = (sorted(rows), counts)
        finally:
            shutil.rmtree(d, ignore_errors=True)
    for mode, (rows, counts) in tables.items():
        for read, winner, loser in (("mm_primA", "mmA.t1", "mmB.t1"), ("mm_primB", "mmB.t1", "mmA.t1"), ("mm_stray", "mmA.t1", "an intergenic position"),
                                    ("mm_q0", "mmA.t1", "mmB.t1")):
            mine = [r for r in rows if r[0] == read]
            if [r[1] for r in mine] != [winner]:
                problems.append("[%s] %s (primary on %s, secondary on %s) is reported as %s: the uniquely assigned primary alignment must win "
                                "and the secondary one be suppressed" % (mode, read, winner, loser, [(r[1], r[2]) for r in mine]))
        if abs(sum(counts.values()) - 10) > 1e-6 or abs(counts.get("mmA.t1", 0) - 6) > 1e-6:
            problems.append("[%s] transcript counts %s: 10 reads expected, 6 for mmA.t1 and 4 for mmB.t1 (no read contributes more than 1)" % (mode, counts))
    if len(tables) == 2 and tables["default"] != tables["--high_memory"]:
        problems.append("default and --high_memory disagree: %s vs %s" % (tables["default"][1], tables["--high_memory"][1]))
    return problems


def replay_mm_pipeline(d):
    p = _mm_pipeline_problems()
    return (not p), "multi-mapper pipeline runs: %s" % (p[:3] or "primary wins in both modes")


@bounded("C08.pipeline_modes", ["C08", "C05"], note="two real pipeline runs (default and --high_memory) on a synthetic two-gene locus with reads whose primary "
         "and secondary alignments lie on the same chromosome (MAPQ 60, and MAPQ 0 on both records): the uniquely assigned primary wins, the secondary is suppressed in "
         "read_assignments and counts, every read counts once, and both modes agree")
def c08_pipeline(tier, rng):
    p = _mm_pipeline_problems()
    viol = [{"obligation": "C08.pipeline_modes", "inputs": {"scenario": "primary+secondary on one chromosome"}, "observed": p[:4],
             "required": "primary wins, losers suppressed, modes agree", "replay_call": "contracts.c_multimap:replay_mm_pipeline"}] if p else []
    return {"cases": 2, "bound": "2 pipeline runs, 10 reads", "violations": viol, "samples": [{"read": "mm_primA"}]}


# ---- which records the resolver takes for primary: the one field that carries the BAM flag into the compact record ---------------------------------
@finite("C08.primary_flag_wiring", ["C08"], note="the expression assigned to read_assignment.multimapper in AlignmentCollector.process_genic / "
        "process_intergenic (extracted from the source on every run; MultimapResolver reads `not multimapper` as 'primary alignment') evaluated on "
        "every combination of the secondary / supplementary flags, MAPQ in {0,1,5,60} and strand: it is True exactly for a secondary record")
def c08_primary_flag(tier, rng):
    import ast, itertools, types
    from pyvc import front
    src = open(front.REPO + "/src/alignment_processor.py").read()
    cls = [n for n in ast.parse(src).body if isinstance(n, ast.ClassDef) and n.name == "AlignmentCollector"][0]
    obl = dis = 0
    viol = []
    for method in ("process_genic", "process_intergenic"):
        fn = [n for n in cls.body if isinstance(n, ast.FunctionDef) and n.name == method][0]
        exprs = [n.value for n in ast.walk(fn) if isinstance(n, ast.Assign) and len(n.targets) == 1 and ast.unparse(n.targets[0]).endswith(".multimapper")]
        if len(exprs) != 1:
            raise front.Missing("exactly one assignment to .multimapper expected in %s, found %d" % (method, len(exprs)))
        code = compile(ast.Expression(exprs[0]), "<%s multimapper>" % method, "eval")
        for sec, sup, mapq, rev in itertools.product((False, True), (False, True), (0, 1, 5, 60), (False, True)):
            obl += 1
            aln = types.SimpleNamespace(is_secondary=sec, is_supplementary=sup, mapping_quality=mapq, is_reverse=rev, is_unmapped=False,
                                        flag=(256 if sec else 0) | (2048 if sup else 0) | (16 if rev else 0))
            try:
                got = eval(code, {"alignment": aln})
            except Exception as e:
                viol.append({"obligation": "C08.primary_flag_wiring.%s" % method, "inputs": None, "observed": "not evaluable: %r" % e,
                             "required": "evaluable", "undecided": True})
                break
            if bool(got) != sec:
                if len(viol) < 4:
                    viol.append({"obligation": "C08.primary_flag_wiring.%s" % method,
                                 "inputs": {"method": method, "is_secondary": sec, "is_supplementary": sup, "mapping_quality": mapq, "is_reverse": rev},
                                 "observed": "%s -> multimapper = %r" % (ast.unparse(exprs[0]), got), "required": "multimapper == is_secondary",
                                 "replay_call": "contracts.c_multimap:replay_primary_flag"})
            else:
                dis += 1
    return {"obligations": obl, "discharged": dis, "violations": viol, "cases": obl, "exhaustive": True,
            "bound": "2 methods x 2 x 2 x 4 x 2 records", "samples": [{"is_secondary": False, "mapping_quality": 0}]}


def replay_primary_flag(d):
    import ast, types
    from pyvc import front
    i = d["inputs"]
    src = open(front.REPO + "/src/alignment_processor.py").read()
    cls = [n for n in ast.parse(src).body if isinstance(n, ast.ClassDef) and n.name == "AlignmentCollector"][0]
    fn = [n for n in cls.body if isinstance(n, ast.FunctionDef) and n.name == i["method"]][0]
    e = [n.value for n in ast.walk(fn) if isinstance(n, ast.Assign) and len(n.targets) == 1 and ast.unparse(n.targets[0]).endswith(".multimapper")][0]
    aln = types.SimpleNamespace(is_secondary=i["is_secondary"], is_supplementary=i["is_supplementary"], mapping_quality=i["mapping_quality"],
                                is_reverse=i["is_reverse"], is_unmapped=False, flag=0)
    got = eval(compile(ast.Expression(e), "<m>", "eval"), {"alignment": aln})
    return bool(got) == i["is_secondary"], "%s: %s -> %r for %s" % (i["method"], ast.unparse(e), got, i)
