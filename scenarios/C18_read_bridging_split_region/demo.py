#!/usr/bin/env python3
"""
Scenario for property C18 (baseline observation of the agent that wrote the C18 polyT seed; defect repaired in /repo since): first sentence, "The Canonical flag of a read ... is True exactly
when every intron has a canonical dinucleotide pair on the reported strand in the reference FASTA".

A read whose long intron bridges two read clusters that are more than 32 kb apart ends up in a
coverage region that AlignmentCollector.split_coverage_regions cuts into pieces. The read is handed
to every piece it overlaps, and each piece only loads the reference sequence of its own window, so
the splice sites of the introns outside the window are looked up outside of the loaded string.

All introns of all reads generated here are GT..AG in the FASTA and all reads are reported on '+',
so every Canonical flag must be True.

exit 0 + "PASS" if so, exit 1 otherwise.
"""
import gzip
import os
import random
import shutil
import subprocess
import sys
import tempfile

import pysam

WORKTREE = os.path.dirname(os.path.dirname(os.path.abspath(__file__)))
PYTHON = sys.executable
CHR = "chrS"
GENOME_LEN = 50000
FWD = {("GT", "AG"), ("GC", "AG"), ("AT", "AC")}
REV = {("CT", "AC"), ("CT", "GC"), ("GT", "AT")}

EXONS_X = [(1001, 1300), (1801, 2000), (2601, 3000)]
EXONS_Y = [(40001, 40300), (40801, 41000), (41601, 42000)]
EXONS_BRIDGE = [(2701, 3000), (40001, 40300), (40801, 41000)]


def introns_of(exons):
    return [(exons[i][1] + 1, exons[i + 1][0] - 1) for i in range(len(exons) - 1)]


def make_read(header, name, genome, exons):
    a = pysam.AlignedSegment(header)
    a.query_name = name
    seq = "".join(genome[s - 1:e] for s, e in exons)
    cigar = []
    for i, (s, e) in enumerate(exons):
        if i > 0:
            cigar.append((3, s - exons[i - 1][1] - 1))
        cigar.append((0, e - s + 1))
    a.query_sequence = seq
    a.flag = 0
    a.reference_id = 0
    a.reference_start = exons[0][0] - 1
    a.mapping_quality = 60
    a.cigartuples = cigar
    a.query_qualities = pysam.qualitystring_to_array("I" * len(seq))
    return a


def main():
    tmp = tempfile.mkdtemp(prefix="c18_side_")
    try:
        rnd = random.Random(181)
        g = [rnd.choice("ACGT") for _ in range(GENOME_LEN)]
        all_introns = set(introns_of(EXONS_X) + introns_of(EXONS_Y) + introns_of(EXONS_BRIDGE))
        for s, e in all_introns:
            g[s - 1:s + 1] = list("GT")
            g[e - 2:e] = list("AG")
        genome = "".join(g)
        fasta = os.path.join(tmp, "ref.fa")
        with open(fasta, "w") as f:
            f.write(">%s\n" % CHR)
            for i in range(0, len(genome), 60):
                f.write(genome[i:i + 60] + "\n")

        header = pysam.AlignmentHeader.from_dict({"HD": {"VN": "1.0", "SO": "coordinate"},
                                                  "SQ": [{"SN": CHR, "LN": len(genome)}]})
        bam = os.path.join(tmp, "reads.bam")
        read_exons = {}
        with pysam.AlignmentFile(bam, "wb", header=header) as out:
            for i in range(10):
                read_exons["readX_%d" % i] = EXONS_X
                out.write(make_read(header, "readX_%d" % i, genome, EXONS_X))
            read_exons["bridge"] = EXONS_BRIDGE
            out.write(make_read(header, "bridge", genome, EXONS_BRIDGE))
            for i in range(10):
                read_exons["readY_%d" % i] = EXONS_Y
                out.write(make_read(header, "readY_%d" % i, genome, EXONS_Y))
        pysam.index(bam)

        gtf = os.path.join(tmp, "genes.gtf")
        with open(gtf, "w") as f:
            for gene, exons in (("geneX", EXONS_X), ("geneY", EXONS_Y)):
                f.write('%s\tdemo\tgene\t%d\t%d\t.\t+\t.\tgene_id "%s";\n' % (CHR, exons[0][0], exons[-1][1], gene))
                f.write('%s\tdemo\ttranscript\t%d\t%d\t.\t+\t.\tgene_id "%s"; transcript_id "%s.t1";\n'
                        % (CHR, exons[0][0], exons[-1][1], gene, gene))
                for s, e in exons:
                    f.write('%s\tdemo\texon\t%d\t%d\t.\t+\t.\tgene_id "%s"; transcript_id "%s.t1";\n'
                            % (CHR, s, e, gene, gene))

        home = os.path.join(tmp, "home")
        os.makedirs(home)
        outdir = os.path.join(tmp, "out")
        env = dict(os.environ)
        env["HOME"] = home
        cmd = [PYTHON, os.path.join(WORKTREE, "isoquant.py"), "--reference", fasta, "--bam", bam,
               "--genedb", gtf, "--complete_genedb", "--data_type", "nanopore", "--check_canonical", "--threads", "1",
               "-o", outdir, "--prefix", "side"]
        r = subprocess.run(cmd, cwd=tmp, env=env, stdout=subprocess.PIPE, stderr=subprocess.STDOUT, text=True)
        if r.returncode != 0:
            print(r.stdout[-3000:])
            print("FAIL: isoquant.py exited with %d" % r.returncode)
            return 1

        base = os.path.join(outdir, "side", "side.read_assignments.tsv")
        if os.path.exists(base + ".gz"):
            fh = gzip.open(base + ".gz", "rt")
        else:
            fh = open(base)
        problems = []
        lines_per_read = {}
        for l in fh:
            if l.startswith("#"):
                continue
            f = l.rstrip("\n").split("\t")
            read_id, strand, exons_str, info = f[0], f[2], f[7], f[8]
            lines_per_read[read_id] = lines_per_read.get(read_id, 0) + 1
            flag = None
            for kv in info.split():
                if kv.startswith("Canonical="):
                    flag = kv[len("Canonical="):].rstrip(";")
            exons = [tuple(int(x) for x in e.split("-")) for e in exons_str.split(",")]
            introns = introns_of(exons)
            sites = FWD if strand == "+" else REV
            expected = str(all((genome[s - 1:s + 1], genome[e - 2:e]) in sites for s, e in introns))
            print("%s strand=%s exons=%s Canonical=%s expected=%s" % (read_id, strand, exons_str, flag, expected))
            if flag != expected:
                problems.append("%s (strand %s, exons %s): Canonical=%s, recomputed from the FASTA: %s"
                                % (read_id, strand, exons_str, flag, expected))
        fh.close()
        for read_id in read_exons:
            if read_id not in lines_per_read:
                problems.append("%s missing from read_assignments" % read_id)

        if problems:
            print("FAIL:")
            for p in problems:
                print("  " + p)
            return 1
        print("PASS")
        return 0
    finally:
        shutil.rmtree(tmp, ignore_errors=True)


if __name__ == "__main__":
    sys.exit(main())
