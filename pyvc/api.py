"""Sidecar contract vocabulary.  Contracts are data: strings holding Python expressions over the function's own
parameter names plus `result`, `old(...)`, spec functions and all()/any() comprehensions.  They are read two ways:
symbolically (pyvc.exec) and natively (pyvc.native evaluates them with CPython against the real function)."""
import ast
import inspect
import textwrap
from collections import OrderedDict

from . import ty as T


class Contract:
    def __init__(self, qual, args, returns=None, requires=(), ensures=(), modifies=(), raises=None, loops=None,
                 transparent=False, props=(), locals=None, gen=None, hints=None, consts=None, canary=None,
                 trusted=False, note="", bind=None, known=None, pure=True, native_args=None, decreases=None,
                 ghost=None, native=True, slice=None, path_limit=None, timeout=None, native_ensures=None,
                 bounded_only=False, assumes=(), cases=None, params=None, shards=1, reveal=(), ignore=(), extract=None):
        self.qual = qual
        self.args = OrderedDict(args)  # name -> type string
        self.returns = returns
        self.requires = list(requires)
        self.ensures = list(ensures)
        self.modifies = list(modifies)
        self.raises = dict(raises or {})  # exception name -> condition over the entry state (string)
        self.loops = dict(loops or {})  # ordinal -> dict(inv=[...], decreases=str, locals={name: type})
        self.transparent = transparent
        self.props = list(props)
        self.locals = dict(locals or {})
        self.gen = gen  # native generator of argument tuples (callable(rng, tier) -> iterable)
        self.hints = hints or {}
        self.consts = consts or {}
        self.canary = canary  # a deliberately false ensures clause that must be refuted
        self.trusted = trusted  # contract assumed, body not verified (external / out of subset) -- listed in evidence
        self.note = note
        self.bind = bind or {}  # higher-order parameter / attribute -> qualified real callee
        self.known = known  # known-finding class expression (added negated to requires)
        self.pure = pure
        self.native_args = native_args  # callable converting generated python args for the real function
        self.ghost = ghost or {}
        self.native = native
        self.slice = slice
        self.path_limit = path_limit
        self.timeout = timeout
        self.native_ensures = native_ensures
        self.bounded_only = bounded_only
        self.assumes = list(assumes)
        self.cases = cases
        self.shards = shards
        self.reveal = list(reveal)
        self.extract = extract  # callable(FunctionDef) -> FunctionDef: mechanical extraction of the verified text from the real AST
        self.ignore = list(ignore)  # class-level locations used for logging only: reads are arbitrary, writes dropped (listed)
        self.params = params  # parameter names of an external callee that has no source in /repo (always trusted)  # extra assumptions (listed in evidence), e.g. about opaque callees

    @property
    def name(self):
        return self.qual.split(":")[1]

    @property
    def short(self):
        return self.name.split("#")[0].split(".")[-1]


class SpecFn:
    def __init__(self, fn, sig, opaque=False):
        self.opaque = opaque
        self.fn = fn
        self.name = fn.__name__
        a, r = sig.split("->")
        self.arg_types = [x.strip() for x in _split_top(a)]
        self.ret_type = r.strip()
        src = textwrap.dedent(inspect.getsource(fn))
        node = ast.parse(src).body[0]
        self.node = node
        self.params = [x.arg for x in node.args.args]
        self.z3fn = None

    def __call__(self, *a):
        return self.fn(*a)


class Lemma:
    def __init__(self, name, params, requires, ensures, induct=None, props=(), uses=(), base=None, reveal=()):
        self.reveal = list(reveal)
        self.name = name
        self.params = OrderedDict(params)
        self.requires = list(requires)
        self.ensures = list(ensures)
        self.induct = induct  # name of the int parameter to induct on (hypothesis at induct-1), or None
        self.props = list(props)
        self.uses = list(uses)  # hint expressions (calls of other, earlier lemmas) assumed in the proof
        self.base = base


def _split_top(s):
    out, depth, cur = [], 0, ""
    for ch in s:
        if ch == "[":
            depth += 1
        if ch == "]":
            depth -= 1
        if ch == "," and depth == 0:
            out.append(cur)
            cur = ""
        else:
            cur += ch
    if cur.strip():
        out.append(cur)
    return out


REG = OrderedDict()  # qual -> Contract
SPECS = OrderedDict()  # name -> SpecFn
LEMMAS = OrderedDict()  # name -> Lemma
BOUNDED = OrderedDict()  # name -> dict(props, fn, note)   native bounded stand-ins
FINITE = OrderedDict()  # name -> dict(props, fn, note)    finite-domain exhaustive proofs (native enumeration)


def contract(qual, args, **kw):
    c = Contract(qual, args, **kw)
    REG[qual] = c
    return c


def spec(sig, opaque=False):
    """opaque=True: the solver sees the function as uninterpreted unless the contract lists it under reveal=[...]"""
    def deco(fn):
        s = SpecFn(fn, sig, opaque)
        SPECS[s.name] = s
        return s

    return deco


def lemma(name, params, requires, ensures, **kw):
    l = Lemma(name, params, requires, ensures, **kw)
    LEMMAS[name] = l
    return l


def record(name, fields):
    T.RECORDS[name] = T.TRec(name, {k: None for k in fields})
    # two-phase so that shapes can mention each other
    T.RECORDS[name].fields = {k: T.parse_type(v) for k, v in fields.items()}
    return T.RECORDS[name]


def enum_from_repo(rel, cname):
    from . import front
    if cname in T.ENUMS:
        return T.ENUMS[cname]
    mem = front.enum_members(rel, cname)
    e = T.TEnum(cname, [m for m, _ in mem], mem)
    e.rel = rel
    T.ENUMS[cname] = e
    return e


def bounded(name, props, note="", shards=1):
    """shards: a random (not exhaustive) bounded check is run that many times in parallel with different seeds in the thorough tier"""
    def deco(fn):
        BOUNDED[name] = dict(props=list(props), fn=fn, note=note, name=name, shards=shards)
        return fn

    return deco


def finite(name, props, note=""):
    def deco(fn):
        FINITE[name] = dict(props=list(props), fn=fn, note=note, name=name)
        return fn

    return deco


def by_short_name(name):
    return [c for c in REG.values() if c.short == name]
