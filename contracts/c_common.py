"""Contracts for src/common.py — interval and profile primitives (C19), CIGAR walkers (C16), strand tables (C18).

Specification style: every range primitive is specified pointwise on integer positions, i.e. against the set
{p | lo <= p <= hi} the interval denotes, not against another formula of the same shape."""
from pyvc.api import contract, spec, lemma, enum_from_repo, bounded
from pyvc import native

C = "src/common.py:"
IV = "tuple[int,int]"
IVS = "list[tuple[int,int]]"

CLASS_HOME = {"CigarEvent": "src/common.py", "TranscriptNaming": "src/common.py"}
enum_from_repo("src/common.py", "CigarEvent")


# ---- spec functions ---------------------------------------------------------------------------------------------
@spec("tuple[int,int] -> bool")
def ok(r):
    return r[0] <= r[1]


@spec("tuple[int,int], int -> bool")
def inside(r, p):
    return r[0] <= p <= r[1]


@spec("list[tuple[int,int]] -> bool")
def WF(L):
    # sorted, disjoint, non-empty intervals.  Stated pairwise (equivalent to the consecutive form because lo <= hi) so that
    # the quantifier has no arithmetic in its trigger (i+1 would start a matching loop in the solver)
    return all(L[i][0] <= L[i][1] for i in range(len(L))) and \
        all(L[i][1] < L[j][0] for i in range(len(L)) for j in range(i + 1, len(L)))


@spec("list[tuple[int,int]] -> bool")
def WFgap(L):
    return all(L[i][0] <= L[i][1] for i in range(len(L))) and \
        all(L[i][1] + 1 < L[j][0] for i in range(len(L)) for j in range(i + 1, len(L)))


@spec("list[tuple[int,int]] -> bool")
def WFinner(L):
    # like WF, but the outer ends (start of the first, end of the last interval) are unconstrained:
    # get_exons passes (-inf, x) and (y, inf) sentinels there
    return all(L[i][0] <= L[i][1] for i in range(1, len(L) - 1)) and \
        all(L[i][1] < L[j][0] for i in range(len(L)) for j in range(i + 1, len(L)))


@spec("list[tuple[int,int]], int -> int")
def slen(L, n):
    return 0 if n <= 0 else slen(L, n - 1) + (L[n - 1][1] - L[n - 1][0] + 1)


@spec("list[tuple[int,int]], int, int -> int")
def below(L, n, p):
    # number of positions < p covered by the first n intervals
    return 0 if n <= 0 else below(L, n - 1, p) + max(0, min(L[n - 1][1] + 1, p) - L[n - 1][0])


@spec("list[tuple[int,int]], int, int -> int")
def above(L, n, p):
    # number of positions > p covered by the intervals n .. len-1   (n counts from the left)
    return 0 if n >= len(L) else above(L, n + 1, p) + max(0, L[n][1] - max(L[n][0] - 1, p))


# ---- single-interval primitives ---------------------------------------------------------------------------------
contract(C + "overlaps", {"range1": IV, "range2": IV}, returns="bool", transparent=True, props=["C19"],
         requires=["ok(range1)", "ok(range2)"],
         ensures=["result == any(inside(range2, p) for p in range(range1[0], range1[1] + 1))"],
         canary="result == (range1[1] <= range2[0] or range1[0] > range2[1])")

contract(C + "overlap_intervals", {"range1": IV, "range2": IV}, returns=IV, transparent=True, props=["C19"],
         requires=["ok(range1)", "ok(range2)"],
         ensures=["all((inside(range1, p) and inside(range2, p)) == inside(result, p) "
                  "for p in range(min(range1[0], range2[0]) - 1, max(range1[1], range2[1]) + 2))"],
         canary="result[0] <= result[1]")

contract(C + "intersection_len", {"range1": IV, "range2": IV}, returns="int", transparent=True, props=["C19"],
         requires=["ok(range1)", "ok(range2)"],
         # |r1 ∩ r2|: the intersection is the interval [max lo, min hi] (pointwise, first clause), whose size is hi-lo+1 or 0
         ensures=["all((inside(range1, p) and inside(range2, p)) == (max(range1[0], range2[0]) <= p <= min(range1[1], range2[1])) "
                  "for p in range(min(range1[0], range2[0]) - 1, max(range1[1], range2[1]) + 2))",
                  "result == max(0, min(range1[1], range2[1]) - max(range1[0], range2[0]) + 1)",
                  "(result > 0) == any(inside(range2, p) for p in range(range1[0], range1[1] + 1))"],
         canary="result > 0")

contract(C + "left_of", {"range1": IV, "range2": IV}, returns="bool", transparent=True, props=["C19"],
         requires=["ok(range1)", "ok(range2)"],
         ensures=["result == all(p < range2[0] for p in range(range1[0], range1[1] + 1))"],
         canary="result == (range1[0] < range2[0])")

contract(C + "equal_ranges", {"range1": IV, "range2": IV, "delta": "int"}, returns="bool", transparent=True, props=["C19"],
         requires=["delta >= 0"],
         ensures=["result == (-delta <= range1[0] - range2[0] <= delta and -delta <= range1[1] - range2[1] <= delta)",
                  "delta > 0 or result == (range1 == range2)"],
         canary="result == (range1 == range2)")

contract(C + "covers_end", {"bigger_range": IV, "smaller_range": IV}, returns="bool", transparent=True, props=["C19", "C11"],
         ensures=["result == (inside(bigger_range, smaller_range[0]) and inside(smaller_range, bigger_range[1]))"])

contract(C + "covers_start", {"bigger_range": IV, "smaller_range": IV}, returns="bool", transparent=True, props=["C19", "C11"],
         ensures=["result == (inside(smaller_range, bigger_range[0]) and inside(bigger_range, smaller_range[1]))"])

contract(C + "contains", {"bigger_range": IV, "smaller_range": IV}, returns="bool", transparent=True, props=["C19"],
         requires=["ok(smaller_range)"],
         ensures=["result == all(inside(bigger_range, p) for p in range(smaller_range[0], smaller_range[1] + 1))"],
         canary="result == (bigger_range[0] <= smaller_range[0])")

contract(C + "contains_well_inside", {"bigger_range": IV, "smaller_range": IV, "delta": "int"}, returns="bool",
         transparent=True, props=["C19"], requires=["ok(smaller_range)", "delta >= 0"],
         ensures=["result == all(inside(bigger_range, p) for p in range(smaller_range[0] - delta, smaller_range[1] + delta + 1))"])

contract(C + "contains_approx", {"bigger_range": IV, "smaller_range": IV, "delta": "int"}, returns="bool",
         transparent=True, props=["C19"], requires=["ok(smaller_range)", "delta >= 0"],
         ensures=["result == all(bigger_range[0] - delta <= p <= bigger_range[1] + delta "
                  "for p in range(smaller_range[0], smaller_range[1] + 1))"])

contract(C + "max_range", {"range1": IV, "range2": IV}, returns=IV, transparent=True, props=["C19"],
         requires=["ok(range1)", "ok(range2)"],
         # smallest interval containing both
         ensures=["inside(result, range1[0]) and inside(result, range1[1]) and inside(result, range2[0]) and inside(result, range2[1])",
                  "result[0] in (range1[0], range2[0]) and result[1] in (range1[1], range2[1])"],
         canary="result == range1")

contract(C + "interval_len", {"interval": IV}, returns="int", transparent=True, props=["C19"],
         ensures=["result == interval[1] - interval[0] + 1"])

contract(C + "overlaps_at_least", {"range1": IV, "range2": IV, "delta": "int"}, returns="bool", transparent=True,
         props=["C19"], requires=["ok(range1)", "ok(range2)", "delta >= 0"],
         # true iff the ranges overlap and either the overlap has at least delta positions or one contains the other (either way round:
         # the statement is symmetric in the two ranges and invariant under reflection of the axis)
         ensures=["result == (max(range1[0], range2[0]) <= min(range1[1], range2[1]) and "
                  "(min(range1[1], range2[1]) - max(range1[0], range2[0]) + 1 >= delta or "
                  " (range1[0] >= range2[0] and range1[1] <= range2[1]) or (range1[0] <= range2[0] and range1[1] >= range2[1])))"],
         canary="result == (max(range1[0], range2[0]) <= min(range1[1], range2[1]))")

contract(C + "overlaps_at_least_when_overlap", {"range1": IV, "range2": IV, "delta": "int"}, returns="bool",
         transparent=True, props=["C19"],
         # the "dangerous function" comment becomes the precondition: the ranges overlap
         requires=["ok(range1)", "ok(range2)", "delta >= 0", "max(range1[0], range2[0]) <= min(range1[1], range2[1])"],
         ensures=["result == (min(range1[1], range2[1]) - max(range1[0], range2[0]) + 1 >= delta or "
                  "(range1[0] >= range2[0] and range1[1] <= range2[1]) or (range1[0] <= range2[0] and range1[1] >= range2[1]))"])

# ---- sums over sorted interval lists ------------------------------------------------------------------------------
contract(C + "intervals_total_length", {"sorted_range_list": IVS}, returns="int", props=["C19"],
         ensures=["result == slen(sorted_range_list, len(sorted_range_list))"],
         loops={0: {"inv": ["total_len == slen(sorted_range_list, _k0)"]}},
         canary="result == slen(sorted_range_list, len(sorted_range_list) - 1)")

lemma("below_mono_lo", {"L": IVS, "a": "int", "b": "int"}, props=["C19"],
      requires=["WF(L)", "0 <= a <= b < len(L)"], ensures=["L[a][0] <= L[b][0]", "a == b or L[a][1] < L[b][0]"],
      induct="b", base="a")

lemma("below_tail_zero", {"L": IVS, "i": "int", "m": "int", "p": "int"}, props=["C19"],
      requires=["WF(L)", "0 <= i <= m <= len(L)", "i == len(L) or L[i][0] >= p"],
      ensures=["below(L, m, p) == below(L, i, p)"], induct="m", base="i",
      uses=["below_mono_lo(L, i, m - 1)"])

lemma("below_all", {"L": IVS, "m": "int", "p": "int"}, props=["C19"],
      requires=["WF(L)", "0 <= m <= len(L)", "m == 0 or p > L[m - 1][1]"],
      ensures=["below(L, m, p) == slen(L, m)"], induct="m", base="0",
      uses=["below_mono_lo(L, m - 2, m - 1)"])

contract(C + "sum_intervals_to_point", {"sorted_range_list": IVS, "pos": "int"}, returns="int", props=["C19", "C11"],
         requires=["len(sorted_range_list) > 0", "WF(sorted_range_list)"],
         ensures=["result == below(sorted_range_list, len(sorted_range_list), pos)"],
         loops={0: {"inv": ["0 <= i <= len(sorted_range_list)", "total_len == below(sorted_range_list, i, pos)"],
                    "exit_hints": ["below_tail_zero(sorted_range_list, i, len(sorted_range_list), pos)"]}},
         hints={"entry": ["below_tail_zero(sorted_range_list, 0, len(sorted_range_list), pos)",
                          "below_all(sorted_range_list, len(sorted_range_list), pos)"]},
         canary="result == below(sorted_range_list, len(sorted_range_list), pos + 1)")

lemma("above_mono", {"L": IVS, "a": "int", "b": "int"}, props=["C19"],
      requires=["WF(L)", "0 <= a <= b < len(L)"], ensures=["L[a][1] <= L[b][1]", "a == b or L[a][1] < L[b][0]"],
      induct="b", base="a")

@spec("list[tuple[int,int]], int -> int")
def ngaps(B, n):
    # number of i < n such that blocks i and i+1 are separated by at least one position
    return 0 if n <= 0 else ngaps(B, n - 1) + (1 if B[n - 1][1] + 1 < B[n][0] else 0)


contract(C + "junctions_from_blocks", {"sorted_blocks": IVS}, returns=IVS, props=["C19", "C03", "C14"],
         requires=["WFinner(sorted_blocks)"],
         locals={"junctions": IVS},
         # the junctions are exactly the gaps between consecutive blocks, in order: the k-th gap sits at index k
         ensures=["WFgap(result)",
                  "len(result) == ngaps(sorted_blocks, len(sorted_blocks) - 1)",
                  "all(result[ngaps(sorted_blocks, i)] == (sorted_blocks[i][1] + 1, sorted_blocks[i + 1][0] - 1) "
                  "    for i in range(len(sorted_blocks) - 1) if sorted_blocks[i][1] + 1 < sorted_blocks[i + 1][0])",
                  # special case used by get_exons: when every consecutive pair is separated, junction i is gap i
                  "not all(sorted_blocks[i][1] + 1 < sorted_blocks[i + 1][0] for i in range(len(sorted_blocks) - 1)) or "
                  "(len(result) == max(0, len(sorted_blocks) - 1) and "
                  " all(result[i] == (sorted_blocks[i][1] + 1, sorted_blocks[i + 1][0] - 1) for i in range(len(sorted_blocks) - 1)))"],
         loops={0: {"inv": [
             "len(junctions) == ngaps(sorted_blocks, _k0)", "0 <= len(junctions) <= _k0",
             "WFgap(junctions)",
             "len(junctions) == 0 or junctions[len(junctions) - 1][1] < sorted_blocks[_k0][0]",
             "all(junctions[ngaps(sorted_blocks, i)] == (sorted_blocks[i][1] + 1, sorted_blocks[i + 1][0] - 1) "
             "    for i in range(_k0) if sorted_blocks[i][1] + 1 < sorted_blocks[i + 1][0])",
             "all(0 <= ngaps(sorted_blocks, i) <= ngaps(sorted_blocks, i + 1) <= len(junctions) for i in range(_k0))",
             "not all(sorted_blocks[i][1] + 1 < sorted_blocks[i + 1][0] for i in range(_k0)) or "
             "(len(junctions) == _k0 and all(junctions[i] == (sorted_blocks[i][1] + 1, sorted_blocks[i + 1][0] - 1) for i in range(_k0)))",
         ]}},
         canary="len(result) == max(0, len(sorted_blocks) - 1)")

contract(C + "get_first_best_from_sorted", {"sorted_list_of_pairs": "list[tuple[int,int]]"}, returns="list[int]",
         props=["C19"], locals={"result": "list[int]"},
         requires=["all(sorted_list_of_pairs[i][1] <= sorted_list_of_pairs[i + 1][1] for i in range(len(sorted_list_of_pairs) - 1))"],
         # exactly the keys whose value equals the first (smallest) value, as a prefix in order
         ensures=["len(result) <= len(sorted_list_of_pairs)",
                  "all(result[i] == sorted_list_of_pairs[i][0] and sorted_list_of_pairs[i][1] == sorted_list_of_pairs[0][1] for i in range(len(result)))",
                  "len(result) == len(sorted_list_of_pairs) or sorted_list_of_pairs[len(result)][1] > sorted_list_of_pairs[0][1]",
                  "len(sorted_list_of_pairs) == 0 or len(result) >= 1"],
         loops={0: {"inv": ["len(result) == _k0", "best_value == sorted_list_of_pairs[0][1]",
                            "all(result[i] == sorted_list_of_pairs[i][0] and sorted_list_of_pairs[i][1] == best_value for i in range(_k0))"]}},
         canary="len(result) == len(sorted_list_of_pairs)")

contract(C + "rindex", {"l": "list[int]", "el": "int"}, returns="int", props=["C19"],
         raises={"ValueError": "not any(l[i] == el for i in range(len(l)))"},
         ensures=["0 <= result < len(l) and l[result] == el", "all(l[j] != el for j in range(result + 1, len(l)))"],
         loops={0: {"inv": ["all(l[j] != el for j in range(len(l) - _k0, len(l)))"]}},
         canary="result == 0")

contract(C + "argmin", {"l": "list[int]"}, returns="int", props=["C19"],
         ensures=["(result == -1) == (len(l) == 0)",
                  "len(l) == 0 or (0 <= result < len(l) and all(l[result] <= l[j] for j in range(len(l))) "
                  "and all(l[j] > l[result] for j in range(result)))"],
         loops={0: {"inv": ["0 <= min_i < len(l)", "min_i <= _k0", "min_v == l[min_i]", "all(min_v <= l[j] for j in range(_k0))",
                            "all(l[j] > min_v for j in range(min_i))"]}},
         canary="result == 0")


# ---- suffix sums (mirror of the prefix sums; C11 relies on the pair) -------------------------------------------------
lemma("above_head_zero", {"L": IVS, "i1": "int", "d": "int", "p": "int"}, props=["C19"],
      # the d intervals before index i1 all end at or before p: they contribute nothing
      requires=["WF(L)", "0 <= d <= i1 <= len(L)", "i1 == 0 or L[i1 - 1][1] <= p"],
      ensures=["above(L, i1 - d, p) == above(L, i1, p)"], induct="d", base="0")

lemma("above_all", {"L": IVS, "d": "int", "p": "int"}, props=["C19"],
      requires=["WF(L)", "0 <= d <= len(L)", "len(L) > 0", "p < L[0][0]"],
      ensures=["above(L, len(L) - d, p) == slen(L, len(L)) - slen(L, len(L) - d)"], induct="d", base="0")

contract(C + "sum_intervals_from_point", {"sorted_range_list": IVS, "pos": "int"}, returns="int", props=["C19", "C11"],
         requires=["len(sorted_range_list) > 0", "WF(sorted_range_list)"],
         ensures=["result == above(sorted_range_list, 0, pos)"],
         loops={0: {"inv": ["-1 <= i < len(sorted_range_list)", "total_len == above(sorted_range_list, i + 1, pos)"],
                    "exit_hints": ["above_head_zero(sorted_range_list, i + 1, i + 1, pos)"]}},
         hints={"entry": ["above_all(sorted_range_list, len(sorted_range_list), pos)",
                          "above_head_zero(sorted_range_list, len(sorted_range_list), len(sorted_range_list), pos)"]},
         canary="result == above(sorted_range_list, 0, pos - 1)")

# ---- binary search in ordered intervals ------------------------------------------------------------------------------
contract(C + "interval_bin_search", {"ordered_intervals": IVS, "pos": "int"}, returns="int", props=["C19", "C11"],
         requires=["len(ordered_intervals) > 0", "WF(ordered_intervals)"],
         # index of the last interval whose start is <= pos (the interval containing pos, or the one left of the gap pos is in)
         ensures=["(result == -1) == (pos < ordered_intervals[0][0] or pos > ordered_intervals[len(ordered_intervals) - 1][1])",
                  "result == -1 or (0 <= result < len(ordered_intervals) and ordered_intervals[result][0] <= pos and "
                  "(result == len(ordered_intervals) - 1 or pos < ordered_intervals[result + 1][0]))"],
         loops={0: {"inv": ["s == len(ordered_intervals) - 1", "0 <= ind <= s - 1", "current_step >= 0",
                            "current_step <= 1 or (ind - s // 2 <= s // 2 - current_step and s // 2 - ind <= s // 2 - current_step)",
                            "ordered_intervals[0][0] <= pos < ordered_intervals[s][0]"]}},
         canary="result == -1 or ordered_intervals[result][0] <= pos <= ordered_intervals[result][1]")

contract(C + "interval_bin_search_rev", {"ordered_intervals": IVS, "pos": "int"}, returns="int", props=["C19", "C11"],
         requires=["len(ordered_intervals) > 0", "WF(ordered_intervals)"],
         # index of the first interval whose end is >= pos
         ensures=["(result == -1) == (pos < ordered_intervals[0][0] or pos > ordered_intervals[len(ordered_intervals) - 1][1])",
                  "result == -1 or (0 <= result < len(ordered_intervals) and pos <= ordered_intervals[result][1] and "
                  "(result == 0 or ordered_intervals[result - 1][1] < pos))"],
         loops={0: {"inv": ["s == len(ordered_intervals) - 1", "0 <= ind <= s", "current_step >= 0",
                            "current_step <= 1 or (ind - s // 2 <= s // 2 - current_step and s // 2 - ind <= s // 2 - current_step)",
                            "ordered_intervals[0][1] < pos <= ordered_intervals[s][1]"]}},
         canary="result == -1 or ordered_intervals[result][0] <= pos <= ordered_intervals[result][1]")

# ---- junction / exon conversion -------------------------------------------------------------------------------------------
contract(C + "get_following_exon_from_junctions", {"region": IV, "introns": IVS, "intron_position": "int"}, returns=IV,
         props=["C19", "C11"],
         requires=["len(introns) > 0", "-1 <= intron_position < len(introns)"],
         ensures=["result[0] == introns[intron_position][1] + 1",
                  "result[1] == (region[1] if (intron_position == len(introns) - 1 or intron_position == -1) else introns[intron_position + 1][0] - 1)"])

contract(C + "get_preceding_exon_from_junctions", {"region": IV, "introns": IVS, "intron_position": "int"}, returns=IV,
         props=["C19", "C11"],
         requires=["0 <= intron_position <= len(introns)"],
         ensures=["result[0] == (region[0] if intron_position == 0 else introns[intron_position - 1][1] + 1)",
                  "result[1] == (region[1] if intron_position == len(introns) else introns[intron_position][0] - 1)"])

contract(C + "get_exon", {"read_region": IV, "read_junctions": IVS, "exon_position": "int"}, returns=IV, props=["C19"],
         requires=["len(read_junctions) > 0", "-len(read_junctions) - 1 <= exon_position <= len(read_junctions)"],
         # the exon_position-th exon (negative positions count from the end) of the transcript region/junctions describe
         ensures=["result == (read_region[0] if (exon_position % (len(read_junctions) + 1)) == 0 else read_junctions[(exon_position % (len(read_junctions) + 1)) - 1][1] + 1, "
                  "read_region[1] if (exon_position % (len(read_junctions) + 1)) == len(read_junctions) else read_junctions[exon_position % (len(read_junctions) + 1)][0] - 1)"])

contract(C + "get_exons", {"read_region": IV, "read_introns": IVS}, returns=IVS, props=["C19", "C03", "C14"],
         requires=["WFgap(read_introns)",
                  "len(read_introns) == 0 or (read_region[0] < read_introns[0][0] and read_introns[len(read_introns) - 1][1] < read_region[1])",
                  "read_region[0] <= read_region[1]"],
         # inverse of junctions_from_blocks on gapped well-formed input: exon k lies between intron k-1 and intron k
         ensures=["len(result) == len(read_introns) + 1",
                  "result[0][0] == read_region[0] and result[len(result) - 1][1] == read_region[1]",
                  "all(result[k][1] == read_introns[k][0] - 1 and result[k + 1][0] == read_introns[k][1] + 1 for k in range(len(read_introns)))",
                  "WF(result)"],
         trusted=False)


# ---- profile helpers (C01 relies on them as well) -------------------------------------------------------------------------
PROF = "list[int]"

contract(C + "equal_profiles_in_range", {"isoforom_profile": PROF, "read_profile": PROF, "profile_range": IV},
         returns="bool", props=["C19", "C01"],
         requires=["0 <= profile_range[0]", "profile_range[1] <= len(read_profile)", "len(isoforom_profile) == len(read_profile)"],
         ensures=["result == all(isoforom_profile[i] == read_profile[i] for i in range(profile_range[0], profile_range[1]) if read_profile[i] != 0)"],
         loops={0: {"inv": ["all(isoforom_profile[i] == read_profile[i] for i in range(profile_range[0], profile_range[0] + _k0) if read_profile[i] != 0)"]}},
         canary="result == all(isoforom_profile[i] == read_profile[i] for i in range(profile_range[0], profile_range[1]))")

contract(C + "all_features_present", {"isoform_profile": PROF, "read_profile": PROF}, returns="bool", props=["C19", "C01"],
         requires=["len(isoform_profile) == len(read_profile)"],
         ensures=["result == all(read_profile[i] == 1 for i in range(len(isoform_profile)) if isoform_profile[i] == 1)"],
         loops={0: {"inv": ["all(read_profile[i] == 1 for i in range(_k0) if isoform_profile[i] == 1)"]}},
         canary="result == all(read_profile[i] == 1 for i in range(len(isoform_profile)))")

contract(C + "has_overlapping_features", {"profile1": PROF, "profile2": PROF, "profile_range": "opt[tuple[int,int]]"},
         returns="bool", props=["C19", "C01"],
         requires=["len(profile1) == len(profile2)",
                   "profile_range is None or (0 <= profile_range[0] and profile_range[1] <= len(profile1))"],
         ensures=["result == any(profile1[i] == 1 and profile2[i] == 1 for i in range(0 if profile_range is None else profile_range[0], "
                  "len(profile1) if profile_range is None else profile_range[1]))"],
         loops={0: {"inv": ["not any(profile1[i] == 1 and profile2[i] == 1 for i in range(profile_range[0], profile_range[0] + _k0))"]}},
         canary="result == any(profile1[i] == 1 for i in range(len(profile1)))")

contract(C + "has_inconsistent_features", {"read_profile": PROF, "gene_profile": PROF}, returns="bool", props=["C19", "C01"],
         requires=["len(read_profile) == len(gene_profile)"],
         ensures=["result == any(read_profile[i] != gene_profile[i] and read_profile[i] != 0 for i in range(len(read_profile)))"],
         loops={0: {"inv": ["not any(read_profile[i] != gene_profile[i] and read_profile[i] != 0 for i in range(_k0))"]}})

@spec("list[int], list[int], int -> int")
def both1(p1, p2, n):
    return 0 if n <= 0 else both1(p1, p2, n - 1) + (1 if p1[n - 1] == 1 and p2[n - 1] == 1 else 0)


contract(C + "count_both_present_features", {"profile1": PROF, "profile2": PROF}, returns="int", props=["C19"],
         requires=["len(profile1) == len(profile2)"],
         ensures=["result == both1(profile1, profile2, len(profile1))"],
         loops={0: {"inv": ["d == both1(profile1, profile2, _k0)"]}},
         canary="result == both1(profile1, profile2, len(profile1) - 1)")


@spec("list[int], list[int], int, int -> int")
def hamming(p1, p2, lo, n):
    # number of positions lo <= i < n where both are non-zero and differ
    return 0 if n <= lo else hamming(p1, p2, lo, n - 1) + (1 if p1[n - 1] != 0 and p2[n - 1] != 0 and p1[n - 1] != p2[n - 1] else 0)


contract(C + "difference_in_present_features",
         {"profile1": PROF, "profile2": PROF, "diff_limit": "int", "profile_range": "opt[tuple[int,int]]"},
         returns="int", props=["C19", "C01"],
         requires=["len(profile1) == len(profile2)", "diff_limit >= -1",
                   "profile_range is None or (0 <= profile_range[0] <= profile_range[1] <= len(profile1))"],
         # the Hamming distance over positions where both are informative, or, when the limit is exceeded, a value above it
         ensures=["profile_range is not None or result == hamming(profile1, profile2, 0, len(profile1)) or "
                  "(diff_limit != -1 and result == diff_limit + 1 and hamming(profile1, profile2, 0, len(profile1)) > diff_limit)",
                  "profile_range is None or result == hamming(profile1, profile2, profile_range[0], profile_range[1]) or "
                  "(diff_limit != -1 and result == diff_limit + 1 and hamming(profile1, profile2, profile_range[0], profile_range[1]) > diff_limit)"],
         loops={0: {"inv": ["d == hamming(profile1, profile2, profile_range[0], profile_range[0] + _k0)", "d <= diff_limit",
                            "0 <= d <= _k0"],
                    "exit_hints": ["hamming_mono(profile1, profile2, profile_range[0], profile_range[0] + _k0 + 1, profile_range[1] - profile_range[0] - _k0 - 1)"]}},
         canary="result <= diff_limit")

lemma("hamming_mono", {"p1": PROF, "p2": PROF, "lo": "int", "n": "int", "d": "int"}, props=["C19"],
      requires=["d >= 0"], ensures=["hamming(p1, p2, lo, n + d) >= hamming(p1, p2, lo, n)"], induct="d", base="0")

contract(C + "find_matching_positions", {"profile1": PROF, "profile2": PROF}, returns=PROF, props=["C19"],
         requires=["len(profile1) == len(profile2)"],
         ensures=["len(result) == len(profile1)",
                  "all(result[i] == (1 if profile1[i] == profile2[i] else 0) for i in range(len(profile1)))"],
         loops={0: {"inv": ["len(matches) == len(profile1)",
                            "all(matches[i] == (1 if profile1[i] == profile2[i] else 0) for i in range(_k0))",
                            "all(matches[i] == 0 for i in range(_k0, len(profile1)))"]}})

contract(C + "mask_profile", {"read_profile": PROF, "true_profile": PROF}, returns=PROF, props=["C19"],
         requires=["len(read_profile) == len(true_profile)"], locals={"masked_profile": PROF},
         ensures=["len(result) == len(true_profile)",
                  "all(result[i] == (read_profile[i] if true_profile[i] == 1 else 0) for i in range(len(true_profile)))"],
         loops={0: {"inv": ["len(masked_profile) == _k0",
                            "all(masked_profile[i] == (read_profile[i] if true_profile[i] == 1 else 0) for i in range(_k0))"]}})

contract(C + "is_subprofile", {"short_isoform_profile": PROF, "long_isoform_profile": PROF}, returns="bool",
         props=["C19", "C01"],
         requires=["len(short_isoform_profile) == len(long_isoform_profile)",
                   "all(short_isoform_profile[i] != 0 for i in range(len(short_isoform_profile)))",
                   "any(short_isoform_profile[i] == 1 or short_isoform_profile[i] == -1 for i in range(len(short_isoform_profile)))"],
         locals={"short_range_start": "opt[int]", "short_range_end": "opt[int]"},
         ghost={"gfirst": "int", "glast": "int"},
         # gfirst / glast: ghost names for the first and last position carrying +-1 (pinned by the requires below)
         ensures=["not (0 <= gfirst <= glast < len(short_isoform_profile) "
                  "and (short_isoform_profile[gfirst] == 1 or short_isoform_profile[gfirst] == -1) "
                  "and (short_isoform_profile[glast] == 1 or short_isoform_profile[glast] == -1) "
                  "and all(short_isoform_profile[i] != 1 and short_isoform_profile[i] != -1 for i in range(gfirst)) "
                  "and all(short_isoform_profile[i] != 1 and short_isoform_profile[i] != -1 for i in range(glast + 1, len(short_isoform_profile)))) "
                  "or result == all(short_isoform_profile[i] == long_isoform_profile[i] for i in range(gfirst, glast + 1))"],
         loops={0: {"inv": ["(short_range_start is None) == (short_range_end is None)",
                            "short_range_start is None or (0 <= short_range_start <= short_range_end < _k0 and "
                            "(short_isoform_profile[short_range_start] == 1 or short_isoform_profile[short_range_start] == -1) and "
                            "(short_isoform_profile[short_range_end] == 1 or short_isoform_profile[short_range_end] == -1) and "
                            "all(short_isoform_profile[i] != 1 and short_isoform_profile[i] != -1 for i in range(short_range_start)) and "
                            "all(short_isoform_profile[i] != 1 and short_isoform_profile[i] != -1 for i in range(short_range_end + 1, _k0)))",
                            "short_range_start is not None or all(short_isoform_profile[i] != 1 and short_isoform_profile[i] != -1 for i in range(_k0))"]},
                1: {"inv": ["all(short_isoform_profile[i] == long_isoform_profile[i] for i in range(short_range_start, short_range_start + _k1))"]}},
         native=False)

contract(C + "get_blocks_from_profile", {"features": IVS, "profile": PROF}, returns=IVS, props=["C19"],
         requires=["len(features) == len(profile)"], locals={"profile_features": IVS},
         ensures=["len(result) == ones(profile, len(profile))",
                  "all(result[ones(profile, i)] == features[i] for i in range(len(profile)) if profile[i] == 1)"],
         loops={0: {"inv": ["len(profile_features) == ones(profile, _k0)",
                            "all(profile_features[ones(profile, i)] == features[i] for i in range(_k0) if profile[i] == 1)",
                            "all(0 <= ones(profile, i) <= ones(profile, i + 1) <= len(profile_features) for i in range(_k0))"]}})


@spec("list[int], int -> int")
def ones(p, n):
    return 0 if n <= 0 else ones(p, n - 1) + (1 if p[n - 1] == 1 else 0)


# ---- set-of-positions semantics of the sweeps that are not (yet) under a discharged contract: bounded stand-in -------------------------
def _pos(L):
    s = set()
    for a, b in L:
        s.update(range(a, b + 1))
    return s


def _blocks_of(posset):
    out = []
    for p in sorted(posset):
        if out and out[-1][1] == p - 1:
            out[-1] = (out[-1][0], p)
        else:
            out.append((p, p))
    return out


def _set_semantics_problems(L1, L2):
    com = native.repo_import("src/common.py")
    gi = native.repo_import("src/gene_info.py")
    A, B = _pos(L1), _pos(L2)
    problems = []
    try:
        j = com.jaccard_similarity(list(L1), list(L2))
        if abs(j - len(A & B) / len(A | B)) > 1e-12:
            problems.append("jaccard_similarity = %r, |A&B|/|A|B| = %d/%d" % (j, len(A & B), len(A | B)))
    except AssertionError as e:
        problems.append("jaccard_similarity raised AssertionError %s" % e)
    try:
        u = com.merge_ranges(list(L1), list(L2))
        # the union as a list of sorted disjoint blocks covering exactly A | B (adjacent blocks need not be glued)
        if _pos(u) != (A | B) or sum(b - a + 1 for a, b in u) != len(A | B) or any(u[i][1] >= u[i + 1][0] for i in range(len(u) - 1)):
            problems.append("merge_ranges = %r does not tile A|B" % (u,))
    except AssertionError as e:
        problems.append("merge_ranges raised AssertionError %s" % e)
    f = com.read_coverage_fraction(list(L1), list(L2))
    if abs(f - len(A & B) / len(A)) > 1e-12:
        problems.append("read_coverage_fraction = %r, |A&B|/|A| = %d/%d" % (f, len(A & B), len(A)))
    lo, hi = min(B), max(B)
    x = com.extra_exon_percentage((lo, hi), list(L1))
    if abs(x - len([p for p in A if p < lo or p > hi]) / len(A)) > 1e-12:
        problems.append("extra_exon_percentage(%s) = %r" % ((lo, hi), x))
    # split_exons: the coarsest common refinement of a set of (overlapping) exons: disjoint sorted blocks covering exactly the union,
    # every exon a union of consecutive blocks
    exons = sorted(set(L1) | set(L2))
    blocks = gi.GeneInfo.split_exons(exons)
    if _pos(blocks) != (A | B) or any(blocks[i][1] >= blocks[i + 1][0] for i in range(len(blocks) - 1)) or any(a > b for a, b in blocks):
        problems.append("split_exons(%s) = %s does not tile the union" % (exons, blocks))
    else:
        for e in exons:
            inside_ = [b for b in blocks if b[0] >= e[0] and b[1] <= e[1]]
            if _pos(inside_) != _pos([e]):
                problems.append("split_exons(%s) = %s: exon %s is not a union of blocks" % (exons, blocks, e))
        borders = {e[0] for e in exons} | {e[1] + 1 for e in exons}
        if any(b[0] not in borders or b[1] + 1 not in borders for b in blocks):
            problems.append("split_exons(%s) = %s: a block border is not an exon border" % (exons, blocks))
    return problems


def _truncate_problems(L, pa, pt):
    com = native.repo_import("src/common.py")
    problems = []
    r = com.truncate_read_to_polya(list(L), pa, pt)
    A = _pos(L)
    keep = {p for p in A if (pa == -1 or p <= pa) and (pt == -1 or p >= pt)}
    # truncation at polyA keeps exactly the aligned positions up to the polyA position and from the polyT position on; the new terminal
    # coordinates are the tail positions themselves (which always lie inside or at the border of an exon when taken from the read)
    if not keep:
        return problems
    inner = _pos(r)
    core = {p for p in inner if (pa == -1 or p < pa) and (pt == -1 or p > pt)}
    want = {p for p in keep if (pa == -1 or p < pa) and (pt == -1 or p > pt)}
    if core != want:
        problems.append("truncate_read_to_polya(%s, %d, %d) = %s keeps %s, expected %s strictly inside the tails" % (L, pa, pt, r, sorted(core)[:8], sorted(want)[:8]))
    if pa != -1 and r and r[-1][1] != pa:
        problems.append("truncate_read_to_polya(%s, %d, %d) = %s does not end at the polyA position" % (L, pa, pt, r))
    if pt != -1 and r and r[0][0] != pt:
        problems.append("truncate_read_to_polya(%s, %d, %d) = %s does not start at the polyT position" % (L, pa, pt, r))
    return problems


def _conversion_problems(L, lo, hi):
    """junction / exon conversion on position sets: junctions_from_blocks(L) are exactly the non-empty gaps between consecutive blocks;
    get_exons((lo, hi), introns L) are exactly the maximal runs of positions of lo..hi that lie in no intron (touching introns and introns
    at the very border of the region leave no empty or inverted exon behind)"""
    com = native.repo_import("src/common.py")
    problems = []
    J = com.junctions_from_blocks(list(L))
    want = [(L[k][1] + 1, L[k + 1][0] - 1) for k in range(len(L) - 1) if L[k][1] + 1 <= L[k + 1][0] - 1]
    if [tuple(x) for x in J] != want:
        problems.append("junctions_from_blocks(%s) = %s, the gaps are %s" % (L, J, want))
    if lo <= L[0][0] and L[-1][1] <= hi:
        E = com.get_exons((lo, hi), list(L))
        free = set(range(lo, hi + 1)) - _pos(L)
        if [tuple(x) for x in E] != _blocks_of(free):
            problems.append("get_exons((%d, %d), %s) = %s, the positions outside the introns form %s" % (lo, hi, L, E, _blocks_of(free)))
    return problems


def replay_set_semantics(d):
    i = d["inputs"]
    if "region" in i:
        p = _conversion_problems([tuple(x) for x in i["L1"]], i["region"][0], i["region"][1])
        return (not p), "%s: %s" % (i, p or "equal to the set-of-positions definition")
    if "polya" in i:
        p = _truncate_problems([tuple(x) for x in i["L1"]], i["polya"], i["polyt"])
    else:
        p = _set_semantics_problems([tuple(x) for x in i["L1"]], [tuple(x) for x in i["L2"]])
    return (not p), "%s: %s" % (i, p or "equal to the set-of-positions definition")


@bounded("C19.set_semantics", ["C19"], note="jaccard_similarity, merge_ranges, read_coverage_fraction, extra_exon_percentage, GeneInfo.split_exons, "
         "junctions_from_blocks / get_exons and truncate_read_to_polya against the definition on sets of positions: ALL pairs of sorted disjoint interval lists over the "
         "coordinates 1..7 (quick: 1..6), all polyA/polyT positions inside the read, plus random large instances")
def c19_set_semantics(tier, rng):
    import itertools
    U = 6 if tier == "quick" else 7
    lists = []
    for mask in range(1, 2 ** U):
        lists.append(_blocks_of({p + 1 for p in range(U) if mask >> p & 1}))
    # the same position sets with adjacent blocks left unglued (touching intervals)
    extra = []
    for L in lists:
        for k, (a, b) in enumerate(L):
            if b > a:
                extra.append(L[:k] + [(a, a), (a + 1, b)] + L[k + 1:])
    lists += extra[:len(extra) if tier != "quick" else 60]
    cases = 0

    def viol(inputs, p):
        return {"cases": cases, "bound": "small scope", "violations": [{
            "obligation": "C19.set_semantics", "inputs": inputs, "observed": p[:3], "required": "the result defined on the underlying sets of positions",
            "replay_call": "contracts.c_common:replay_set_semantics"}]}
    for L1 in lists:
        for L2 in lists:
            cases += 1
            p = _set_semantics_problems(L1, L2)
            if p:
                return viol({"L1": L1, "L2": L2}, p)
    for L in lists:
        if any(L[i][1] + 1 >= L[i + 1][0] for i in range(len(L) - 1)):
            continue
        pts = sorted(_pos(L))
        for pa in [-1] + pts:
            for pt in [-1] + pts:
                if pa != -1 and pt != -1 and pt >= pa:
                    continue
                cases += 1
                p = _truncate_problems(L, pa, pt)
                if p:
                    return viol({"L1": L, "polya": pa, "polyt": pt}, p)
    # junction / exon conversion: every interval list (incl. touching intervals) as blocks and as introns of every region that contains it
    for L in lists:
        for lo in range(1, L[0][0] + 1):
            for hi in range(L[-1][1], U + 1):
                cases += 1
                p = _conversion_problems(L, lo, hi)
                if p:
                    return viol({"L1": L, "region": [lo, hi]}, p)
    for _ in range(300 if tier == "quick" else 20000):
        def rl():
            out, p = [], rng.randint(1, 50)
            for _i in range(rng.randint(1, 12)):
                a = p + rng.randint(1, 300)
                b = a + rng.randint(0, 800)
                out.append((a, b))
                p = b
            return out
        L1, L2 = rl(), rl()
        cases += 1
        p = _set_semantics_problems(L1, L2)
        if p:
            return viol({"L1": L1, "L2": L2}, p)
    return {"cases": cases, "bound": "all pairs of interval lists over 1..%d (incl. touching blocks), all tail positions, random large pairs" % U,
            "exhaustive": True, "violations": [], "samples": [{"L1": [(1, 2), (4, 4)], "L2": [(2, 5)]}]}


# ---- two-pointer sweeps over two sorted interval lists: intersection size as the sum of pairwise intersections ---------------------------
@spec("tuple[int,int], tuple[int,int] -> int")
def ilen(a, b):
    # number of positions the two intervals share
    return max(0, min(a[1], b[1]) - max(a[0], b[0]) + 1)


@spec("list[tuple[int,int]], int, tuple[int,int] -> int")
def row(L, n, b):
    # positions of b covered by the first n intervals of L (disjoint, so the sum is the size of the intersection)
    return 0 if n <= 0 else row(L, n - 1, b) + ilen(b, L[n - 1])


@spec("list[tuple[int,int]], int, list[tuple[int,int]] -> int")
def isum(L1, n, L2):
    # | positions(first n intervals of L1)  &  positions(L2) |
    return 0 if n <= 0 else isum(L1, n - 1, L2) + row(L2, len(L2), L1[n - 1])


lemma("slen_pos", {"L": IVS, "n": "int"}, props=["C19"], requires=["WF(L)", "0 <= n <= len(L)"], ensures=["slen(L, n) >= n"],
      induct="n", base="0")

lemma("row_zero_before", {"L": IVS, "m": "int", "b": IV}, props=["C19"],
      # everything among the first m intervals ends before b starts
      requires=["WF(L)", "0 <= m <= len(L)", "m == 0 or L[m - 1][1] < b[0]"], ensures=["row(L, m, b) == 0"], induct="m", base="0")

lemma("row_tail_zero", {"L": IVS, "m": "int", "n": "int", "b": IV}, props=["C19"],
      # everything from index m on starts after b ends
      requires=["WF(L)", "0 <= m <= n <= len(L)", "m == len(L) or L[m][0] > b[1]"], ensures=["row(L, n, b) == row(L, m, b)"],
      induct="n", base="m")

lemma("isum_rest_zero", {"L1": IVS, "m": "int", "n": "int", "L2": IVS}, props=["C19"],
      # L2 ends before the m-th interval of L1 starts: the remaining intervals of L1 add nothing
      requires=["WF(L1)", "WF(L2)", "0 <= m <= n <= len(L1)", "len(L2) == 0 or m == len(L1) or L2[len(L2) - 1][1] < L1[m][0]"],
      ensures=["isum(L1, n, L2) == isum(L1, m, L2)"], induct="n", base="m",
      uses=["row_zero_before(L2, len(L2), L1[n - 1])"])


def _gen_two_lists(rng, n):
    def rl():
        out, p = [], rng.randint(0, 5)
        for _i in range(rng.randint(1, 5)):
            a = p + rng.randint(1, 6)
            b = a + rng.randint(0, 9)
            out.append((a, b))
            p = b
        return out
    for _ in range(n):
        yield {"read_range_list": rl(), "isoform_range_list": rl()}


contract(C + "read_coverage_fraction", {"read_range_list": IVS, "isoform_range_list": IVS}, returns="real", props=["C19"],
         requires=["WF(read_range_list)", "WF(isoform_range_list)", "len(read_range_list) >= 1"],
         # | read & isoform | / | read | on the underlying sets of positions
         ensures=["result == isum(read_range_list, len(read_range_list), isoform_range_list) / slen(read_range_list, len(read_range_list))"],
         loops={0: {"inv": [
             "0 <= pos1 <= len(read_range_list)", "0 <= pos2 <= len(isoform_range_list)",
             "intersection == isum(read_range_list, pos1, isoform_range_list) + "
             "(row(isoform_range_list, pos2, read_range_list[pos1]) if pos1 < len(read_range_list) else 0)",
             "pos2 == 0 or pos1 == len(read_range_list) or isoform_range_list[pos2 - 1][1] <= read_range_list[pos1][1]",
             "pos1 == 0 or pos2 == len(isoform_range_list) or read_range_list[pos1 - 1][1] <= isoform_range_list[pos2][1]"],
             "exit_hints": ["isum_rest_zero(read_range_list, pos1 + 1, len(read_range_list), isoform_range_list)",
                            "row_tail_zero(isoform_range_list, pos2, len(isoform_range_list), read_range_list[pos1])"]}},
         hints={"after:block2": ["row_tail_zero(isoform_range_list, pos2 + 1, len(isoform_range_list), block1)",
                                 "row_tail_zero(isoform_range_list, pos2, len(isoform_range_list), block1)",
                                 "row_zero_before(isoform_range_list, pos2, read_range_list[pos1 + 1])"],
                "after:read_length": ["slen_pos(read_range_list, len(read_range_list))"]},
         gen=_gen_two_lists, canary="result == 1", timeout=30000)


lemma("row_bound", {"L": IVS, "n": "int", "b": IV}, props=["C19"],
      # the first n (disjoint, sorted) intervals cover at most the part of b that lies at or before the end of the n-th
      requires=["WF(L)", "0 <= n <= len(L)", "b[0] <= b[1]"],
      ensures=["row(L, n, b) >= 0", "row(L, n, b) <= (0 if n == 0 else max(0, min(b[1], L[n - 1][1]) - b[0] + 1))"], induct="n", base="0")

lemma("isum_le", {"L1": IVS, "n": "int", "L2": IVS}, props=["C19"],
      requires=["WF(L1)", "WF(L2)", "0 <= n <= len(L1)"], ensures=["0 <= isum(L1, n, L2) <= slen(L1, n)"], induct="n", base="0",
      uses=["row_bound(L2, len(L2), L1[n - 1])"])

_L1, _L2 = "sorted_range_list1", "sorted_range_list2"
_N1, _N2 = "len(sorted_range_list1)", "len(sorted_range_list2)"
_LEN1 = "(%s[pos1][1] - %s[pos1][0] + 1)" % (_L1, _L1)
_LEN2 = "(%s[pos2][1] - %s[pos2][0] + 1)" % (_L2, _L2)
_JACC_INV = [
    "0 <= pos1 <= %s" % _N1, "0 <= pos2 <= %s" % _N2, "len(included1) == %s" % _N1, "len(included2) == %s" % _N2,
    "all(included1[j] == 0 or included1[j] == 1 for j in range(%s))" % _N1, "all(included2[j] == 0 or included2[j] == 1 for j in range(%s))" % _N2,
    "all(included1[j] == 0 for j in range(pos1 + 1, %s))" % _N1, "all(included2[j] == 0 for j in range(pos2 + 1, %s))" % _N2,
    # at most one of the two current blocks has been counted already, and a counted one starts no later than the other
    "pos1 == %s or pos2 == %s or included1[pos1] == 0 or included2[pos2] == 0" % (_N1, _N2),
    "pos1 == %s or pos2 == %s or included2[pos2] == 0 or %s[pos1][0] >= %s[pos2][0]" % (_N1, _N2, _L1, _L2),
    "pos1 == %s or pos2 == %s or included1[pos1] == 0 or %s[pos2][0] >= %s[pos1][0]" % (_N1, _N2, _L2, _L1),
    # intersection: all finished rows of list 1 plus the part of the current row already swept
    "intersection == isum(%s, pos1, %s) + (row(%s, pos2, %s[pos1]) if pos1 < %s else 0)" % (_L1, _L2, _L2, _L1, _N1),
    "pos2 == 0 or pos1 == %s or %s[pos2 - 1][1] <= %s[pos1][1]" % (_N1, _L2, _L1),
    "pos1 == 0 or pos2 == %s or %s[pos1 - 1][1] <= %s[pos2][1]" % (_N2, _L1, _L2),
    # union: everything passed, minus what was counted twice, plus the current blocks if they have been counted in full already
    "union == slen(%s, pos1) + slen(%s, pos2) - intersection + (%s if pos1 < %s and included1[pos1] == 1 else 0) + "
    "(%s if pos2 < %s and included2[pos2] == 1 else 0)" % (_L1, _L2, _LEN1, _N1, _LEN2, _N2),
]


# the two clean-up loops: the sweep facts about the current row are no longer needed (the intersection is complete)
_JACC_TAIL = [i for i in _JACC_INV if not i.startswith("intersection ==") and "[pos2 - 1][1] <=" not in i and "[pos1 - 1][1] <=" not in i]


def _gen_jacc(rng, n):
    for d in _gen_two_lists(rng, n):
        yield {_L1: d["read_range_list"], _L2: d["isoform_range_list"]}


contract(C + "jaccard_similarity", {_L1: IVS, _L2: IVS}, returns="real", props=["C19"],
         requires=["WF(%s)" % _L1, "WF(%s)" % _L2, "%s >= 1" % _N1],
         # |A & B| / |A | B| on the underlying sets of positions, with |A | B| = |A| + |B| - |A & B|
         ensures=["result == isum(%s, %s, %s) / (slen(%s, %s) + slen(%s, %s) - isum(%s, %s, %s))" % (_L1, _N1, _L2, _L1, _N1, _L2, _N2, _L1, _N1, _L2)],
         loops={0: {"inv": _JACC_INV,
                    "exit_hints": ["isum_rest_zero(%s, pos1 + 1, %s, %s)" % (_L1, _N1, _L2),
                                   "row_tail_zero(%s, pos2, %s, %s[pos1])" % (_L2, _N2, _L1)]},
                1: {"inv": _JACC_TAIL + ["pos1 == %s or pos2 == %s" % (_N1, _N2), "intersection == isum(%s, %s, %s)" % (_L1, _N1, _L2)]},
                2: {"inv": _JACC_TAIL + ["pos1 == %s" % _N1, "intersection == isum(%s, %s, %s)" % (_L1, _N1, _L2)],
                    "exit_hints": ["slen_pos(%s, %s)" % (_L1, _N1), "slen_pos(%s, %s)" % (_L2, _N2), "isum_le(%s, %s, %s)" % (_L1, _N1, _L2),
                                   "isum_rest_zero(%s, 0, %s, %s)" % (_L1, _N1, _L2)]}},
         hints={"after:block2": ["row_tail_zero(%s, pos2 + 1, %s, block1)" % (_L2, _N2),
                                 "row_tail_zero(%s, pos2, %s, block1)" % (_L2, _N2),
                                 "row_zero_before(%s, pos2, %s[pos1 + 1])" % (_L2, _L1)],
                "exit": ["slen_pos(%s, %s)" % (_L1, _N1), "slen_pos(%s, %s)" % (_L2, _N2), "isum_le(%s, %s, %s)" % (_L1, _N1, _L2),
                         "isum_rest_zero(%s, 0, %s, %s)" % (_L1, _N1, _L2)]},
         gen=_gen_jacc, canary="result == 1", timeout=40000)


@spec("list[tuple[int,int]], int, tuple[int,int] -> int")
def osum(L, n, region):
    # positions of the first n intervals that lie outside the region: |e| - |e & region| summed
    return 0 if n <= 0 else osum(L, n - 1, region) + (L[n - 1][1] - L[n - 1][0] + 1) - ilen(L[n - 1], region)


contract(C + "extra_exon_percentage", {"isoform_region": IV, "read_exons": IVS}, returns="real", props=["C19"],
         requires=["WF(read_exons)", "len(read_exons) >= 1", "isoform_region[0] <= isoform_region[1]"],
         # fraction of the read's aligned positions that lie outside the (extended) isoform region
         ensures=["result == osum(read_exons, len(read_exons), isoform_region) / slen(read_exons, len(read_exons))"],
         loops={0: {"inv": ["total_read_len == slen(read_exons, _k0)", "outside_read_len == osum(read_exons, _k0, isoform_region)"],
                    "exit_hints": ["slen_pos(read_exons, len(read_exons))"]}},
         gen=lambda rng, n: ({"isoform_region": (a, a + rng.randint(0, 30)), "read_exons": d["read_range_list"]}
                             for d in _gen_two_lists(rng, n) for a in [rng.randint(0, 30)]),
         canary="result == 0")
