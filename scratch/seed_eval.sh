#!/bin/bash
# usage: seed_eval.sh <seed-id> <worktree> <property> [more properties...]
# 1) confirms the seeded change in its scratch worktree (demo fails with it, passes without; test suite unchanged)
# (the seed's own demonstration is kept out of the scenario library until the evaluation is over)
# 2) applies it to /repo, runs the registered quick checks of the named properties, and undoes it straight afterwards
ID=$1; WT=$2; shift 2
D=/verif/seeded/$ID
mkdir -p $D
cp $WT/_seed/patch.diff $D/patch.diff; cp $WT/_seed/demo.py $D/demo.py.pending; rm -f $D/demo.py; cp $WT/_seed/notes.md $D/notes.md 2>/dev/null
cd $WT
# the worktree is rebuilt from the recorded patch (git stash is shared between worktrees, so it is not used here)
git checkout -q -- . ; if ! git apply _seed/patch.diff; then echo "PATCH DOES NOT APPLY IN ITS OWN WORKTREE"; exit 8; fi
echo "== files changed: $(git status --short | grep -v _seed | tr '\n' ' ')"
echo "== demo with change"; /venv/bin/python _seed/demo.py > /tmp/demo_with.txt 2>&1; W=$?; tail -2 /tmp/demo_with.txt
git apply -R _seed/patch.diff
echo "== demo without change"; /venv/bin/python _seed/demo.py > /tmp/demo_without.txt 2>&1; WO=$?; tail -1 /tmp/demo_without.txt
git apply _seed/patch.diff
echo "== tests with change"; T=$(/venv/bin/python -m pytest -q -p no:cacheprovider --timeout=900 tests/ 2>&1 | tail -1); echo "$T"
echo "demo_with_exit=$W demo_without_exit=$WO tests='$T'" > $D/confirm.txt
cd /repo
if ! git apply --check $D/patch.diff 2>/dev/null; then echo "PATCH DOES NOT APPLY TO /repo"; exit 9; fi
git apply $D/patch.diff
cd /verif
for P in "$@"; do
  OUT=$(./vcheck $P 2>&1); RC=$?
  echo "== check $P exit $RC"; echo "$OUT" | grep -E "VIOLATION|UNDECIDED|CHECKER|KNOWN" | cut -c1-230 | head -6
  echo "check $P exit=$RC: $(echo "$OUT" | grep -E "VIOLATION" | head -3 | tr '\n' ' ')" >> $D/confirm.txt
done
git -C /repo checkout -- .
# the demonstration joins the scenario library only after the evaluation (no catch by its own scenario)
mv $D/demo.py.pending $D/demo.py
cp $WT/_seed/side_observation.py $D/side_observation.py 2>/dev/null
git -C /repo status --short | head -3
