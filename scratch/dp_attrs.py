import ast, sys
src = open('/repo/src/dataset_processor.py').read()
t = ast.parse(src)
cls = [n for n in t.body if isinstance(n, ast.ClassDef) and n.name == "DatasetProcessor"][0]
methods = {n.name: n for n in cls.body if isinstance(n, ast.FunctionDef)}
def calls(fn):
    out = set()
    for n in ast.walk(fn):
        if isinstance(n, ast.Call) and isinstance(n.func, ast.Attribute) and isinstance(n.func.value, ast.Name) and n.func.value.id == "self" and n.func.attr in methods:
            out.add(n.func.attr)
    return out
reach = set(); todo = ["process_sample"]
while todo:
    m = todo.pop()
    if m in reach: continue
    reach.add(m); todo += list(calls(methods[m]))
init_attrs = {n.targets[0].attr for n in ast.walk(methods["__init__"]) if isinstance(n, ast.Assign) and isinstance(n.targets[0], ast.Attribute) and isinstance(n.targets[0].value, ast.Name) and n.targets[0].value.id == "self"}
rebound, mutated = {}, {}
for m in reach:
    for n in ast.walk(methods[m]):
        if isinstance(n, (ast.Assign, ast.AugAssign)):
            tg = n.targets[0] if isinstance(n, ast.Assign) else n.target
            if isinstance(tg, ast.Attribute) and isinstance(tg.value, ast.Name) and tg.value.id == "self":
                (rebound if isinstance(n, ast.Assign) else mutated).setdefault(tg.attr, []).append((m, n.lineno))
            if isinstance(tg, ast.Subscript) and isinstance(tg.value, ast.Attribute) and isinstance(tg.value.value, ast.Name) and tg.value.value.id == "self":
                mutated.setdefault(tg.value.attr, []).append((m, n.lineno))
        if isinstance(n, ast.Call) and isinstance(n.func, ast.Attribute) and isinstance(n.func.value, ast.Attribute) and isinstance(n.func.value.value, ast.Name) and n.func.value.value.id == "self":
            if n.func.attr in ("add", "merge", "update", "append", "extend", "inc", "add_unaligned", "add_unassigned"):
                mutated.setdefault(n.func.value.attr, []).append((m, n.lineno))
print("reach", sorted(reach))
for a in sorted(init_attrs):
    print(a, "REBOUND" if a in rebound else "", "MUT %s" % mutated[a][:2] if a in mutated else "")
