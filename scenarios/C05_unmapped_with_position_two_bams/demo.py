#!/usr/bin/env python3
"""
Side observation at baseline (independent of the seeded change).

An experiment given as two BAM files.  One file contains an unmapped mate that is placed at the position of
its mapped mate (flag 4, has a reference position, no CIGAR, so reference_end is None), the other file
contains an ordinary primary alignment starting at the same position.  BAMOnlineMerger orders the heads of
the per-file iterators with tuples (reference_start, reference_end, bam_index, alignment); on a tie of the
start positions it compares None with an int and raises TypeError, so none of the reads of the chromosome
is reported.

Expected (property C05): every primary alignment of the two files is reported in corrected_reads.bed and
the log statistics equal the record counts of the input.
Exit 1 if that does not hold, exit 0 + PASS otherwise.
"""
import collections
import gzip
import os
import random
import re
import shutil
import subprocess
import sys
import tempfile

import pysam

WORKTREE = os.path.dirname(os.path.dirname(os.path.abspath(__file__)))
CHR = "chr1"
CHR_LEN = 10000


def record(header, name, start, flag, ref_seq, length=300):
    a = pysam.AlignedSegment(header)
    a.query_name = name
    a.flag = flag
    a.reference_id = 0
    a.reference_start = start
    if flag & 4:
        a.mapping_quality = 0
        a.query_sequence = "ACGT" * 25
    else:
        a.mapping_quality = 60
        a.cigartuples = [(0, length)]
        a.query_sequence = ref_seq[start:start + length]
    a.query_qualities = pysam.qualitystring_to_array("I" * len(a.query_sequence))
    return a


def main():
    tmp = tempfile.mkdtemp(prefix="c05_side_")
    try:
        rnd = random.Random(11)
        ref_seq = "".join(rnd.choice("ACGT") for _ in range(CHR_LEN))
        ref = os.path.join(tmp, "ref.fa")
        with open(ref, "w") as f:
            f.write(">%s\n%s\n" % (CHR, ref_seq))
        header = pysam.AlignmentHeader.from_dict({"HD": {"VN": "1.6", "SO": "coordinate"},
                                                  "SQ": [{"SN": CHR, "LN": CHR_LEN}]})
        bam_a = os.path.join(tmp, "a.bam")
        bam_b = os.path.join(tmp, "b.bam")
        with pysam.AlignmentFile(bam_a, "wb", header=header) as out:
            out.write(record(header, "a_read_1", 1000, 0, ref_seq))
            out.write(record(header, "a_read_2", 5000, 0, ref_seq))
        with pysam.AlignmentFile(bam_b, "wb", header=header) as out:
            out.write(record(header, "b_unmapped_mate", 1000, 4, ref_seq))   # placed, unmapped
            out.write(record(header, "b_read_1", 1200, 0, ref_seq))
        pysam.index(bam_a)
        pysam.index(bam_b)

        expected_reads = set()
        expected = collections.Counter()
        for path in (bam_a, bam_b):
            with pysam.AlignmentFile(path, "rb") as bam:
                for a in bam.fetch(until_eof=True):
                    if a.is_unmapped:
                        expected["unaligned"] += 1
                    elif not a.is_secondary and not a.is_supplementary:
                        expected["primary"] += 1
                        expected_reads.add(a.query_name)

        env = dict(os.environ)
        env["HOME"] = os.path.join(tmp, "home")
        os.makedirs(env["HOME"])
        out_dir = os.path.join(tmp, "out")
        cmd = [sys.executable, os.path.join(WORKTREE, "isoquant.py"), "-o", out_dir, "--data_type", "nanopore",
               "--reference", ref, "--bam", bam_a, bam_b, "--prefix", "side", "--no_model_construction", "-t", "1"]
        res = subprocess.run(cmd, cwd=tmp, env=env, stdout=subprocess.PIPE, stderr=subprocess.STDOUT, text=True)

        problems = []
        if res.returncode != 0:
            tail = [l for l in res.stdout.splitlines() if l.strip()][-4:]
            problems.append("isoquant.py exited with %d: %s" % (res.returncode, " | ".join(tail)))
        reported = set()
        bed = os.path.join(out_dir, "side", "side.corrected_reads.bed")
        for path, opener in ((bed, open), (bed + ".gz", gzip.open)):
            if os.path.exists(path):
                with opener(path, "rt") as f:
                    reported = set(l.split("\t")[3] for l in f if l.strip() and not l.startswith("#"))
        if reported != expected_reads:
            problems.append("corrected_reads.bed reports %s, the input has %s" % (sorted(reported), sorted(expected_reads)))
        stats = {}
        log = os.path.join(out_dir, "isoquant.log")
        if os.path.exists(log):
            for line in open(log):
                m = re.search(r" - INFO - (primary|secondary|supplementary|unaligned): (\d+)\s*$", line)
                if m:
                    stats[m.group(1)] = int(m.group(2))
        for k in ("primary", "unaligned"):
            if stats.get(k, 0) != expected.get(k, 0):
                problems.append("log says %s: %d, the input has %d" % (k, stats.get(k, 0), expected.get(k, 0)))

        if problems:
            print("FAIL: baseline violates property C05 on a two-file experiment")
            for p in problems:
                print("  " + p)
            return 1
        print("PASS")
        return 0
    finally:
        shutil.rmtree(tmp, ignore_errors=True)


if __name__ == "__main__":
    sys.exit(main())
