#!/usr/bin/env python3
"""
Side observation at baseline (UNMODIFIED code) for C08:
"the read's total contribution to any count table never exceeds one".

A read whose two alignments tie (both secondary records, each an exact match of a different
single-isoform gene on a different chromosome) is kept on both loci and flagged ambiguous - as the
property demands - but then contributes 1.0 to EACH transcript / gene row (and 2 to __ambiguous),
because ReadWeightCounter.process_ambiguous(feature_count=1) returns 1.0 for each retained alignment.
Both genes also get one ordinary unique read so that the features are "confirmed" (otherwise
AssignedFeatureCounter.dump zeroes the rows).

Run: cd /tmp/seedf_C08 && /venv/bin/python _seed/side_observation.py
Exit 1 (with a report) when the over-count is observed, exit 0 otherwise.
"""
import os
import shutil
import sys
import tempfile

import pysam

sys.path.insert(0, os.path.dirname(os.path.abspath(__file__)))
import demo


def main():
    tmp = tempfile.mkdtemp(prefix="c08_side_")
    try:
        fasta, gtf, bam = demo.build_inputs(tmp)
        blocks = [(1001, 1300), (2001, 2300), (3001, 3300)]
        with open(gtf, "a") as f:
            f.write('chrB\tdemo\tgene\t1001\t3300\t.\t+\t.\tgene_id "G2"; gene_name "G2";\n')
            f.write('chrB\tdemo\ttranscript\t1001\t3300\t.\t+\t.\tgene_id "G2"; transcript_id "T2";\n')
            for i, (s, e) in enumerate(blocks):
                f.write('chrB\tdemo\texon\t%d\t%d\t.\t+\t.\tgene_id "G2"; transcript_id "T2"; '
                        'exon_number "%d";\n' % (s, e, i + 1))

        with pysam.AlignmentFile(bam) as src:
            header = src.header
            pair = [r for r in src if r.query_name == "r_mm0"]   # chrA:T1 locus + chrB:T2 locus
        records = []
        for r in pair:
            u = pysam.AlignedSegment.fromstring(r.to_string(), header)
            u.query_name = "r_uniq_" + r.reference_name
            u.flag = 0
            records.append(u)
            t = pysam.AlignedSegment.fromstring(r.to_string(), header)
            t.query_name = "r_tie"
            t.flag = 256
            records.append(t)
        records.sort(key=lambda r: (r.reference_id, r.reference_start))
        bam2 = os.path.join(tmp, "tie.bam")
        with pysam.AlignmentFile(bam2, "wb", header=header) as out:
            for r in records:
                out.write(r)
        pysam.index(bam2)
        n_reads = len(set(r.query_name for r in records))

        bad = []
        for label, extra in (("default", []), ("high_memory", ["--high_memory"])):
            sample_dir = demo.run_pipeline(tmp, fasta, gtf, bam2, label, extra)
            kept = demo.retained_alignments(sample_dir)
            print("[%s] r_tie retained on: %s" % (label, {k: sorted(v) for k, v in kept["r_tie"].items()}))
            for table in ("demo.transcript_counts.tsv", "demo.gene_counts.tsv"):
                path = os.path.join(sample_dir, table)
                print("[%s] %s: %s" % (label, table, open(path).read().replace("\n", " | ")))
                mass = demo.table_mass(path)
                if mass > n_reads + 1e-6:
                    bad.append("[%s] %s: counted mass %.2f for %d distinct reads" % (label, table, mass, n_reads))
        if bad:
            print("BASELINE VIOLATION: a tied multi-mapped read contributes more than one")
            for b in bad:
                print("  " + b)
            return 1
        print("no over-count observed")
        return 0
    finally:
        shutil.rmtree(tmp, ignore_errors=True)


if __name__ == "__main__":
    sys.exit(main())
