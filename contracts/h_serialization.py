"""Round-trip harnesses for src/serialization.py (C15).  Sidecar code: each function composes the REAL writer and the REAL
reader; pyvc inlines the real bodies (they are `transparent`) and proves the postcondition for all values."""
import sys
from pyvc import front
sys.path.insert(0, front.REPO)
from pyvc.streams import new_stream, utf8len  # noqa
from src.serialization import *  # noqa


def rt_int(val, bytes_len, rest):
    s = new_stream()
    write_int(val, s, bytes_len)
    n = len(s)
    s.write(rest)
    r = read_int(s, bytes_len)
    return r, s, n


def rt_short_int(val, rest):
    s = new_stream()
    write_short_int(val, s)
    n = len(s)
    s.write(rest)
    r = read_short_int(s)
    return r, s, n


def rt_int_neg(val, rest):
    s = new_stream()
    write_int_neg(val, s)
    n = len(s)
    s.write(rest)
    r = read_int_neg(s)
    return r, s, n


def rt_bool_array3(b0, b1, b2, rest):
    s = new_stream()
    write_bool_array([b0, b1, b2], s)
    n = len(s)
    s.write(rest)
    r = read_bool_array(s, 3)
    return r, s, n


def rt_bool_array2_of3(b0, b1, b2, rest):
    # the abridged reader asks for fewer flags than were written: it must see a prefix and stay aligned
    s = new_stream()
    write_bool_array([b0, b1, b2], s)
    n = len(s)
    s.write(rest)
    r = read_bool_array(s, 2)
    return r, s, n


def rt_string_len(sv, rest):
    # alignment of the string format: the reader consumes exactly the bytes the writer produced
    s = new_stream()
    write_string(sv, s)
    n = len(s)
    s.write(rest)
    r = read_string(s)
    return r, s, n


def rt_string_or_none_len(sv, rest):
    s = new_stream()
    write_string_or_none(sv, s)
    n = len(s)
    s.write(rest)
    r = read_string_or_none(s)
    return r, s, n
