"""VC generation per function + discharge."""
import ast
import time
import z3
from .val import *
from .state import *
from .expr import ExprMixin, zand, zor
from .calls import CallMixin
from .stmt import StmtMixin, MUTATORS
from . import api, front
from . import ty as T


class Result:
    def __init__(self, name):
        self.name = name
        self.obligations = {}  # obligation name -> dict(status, vcs, time, info, model)
        self.status = "ok"  # ok | unsupported | missing
        self.msg = ""
        self.fingerprint = None
        self.trusted_axioms = set()
        self.assumptions = set()
        self.callees = set()
        self.lemmas = set()
        self.paths = 0
        self.canary = None
        self.presat = None
        self.time = 0.0


class Engine(ExprMixin, CallMixin, StmtMixin):
    def __init__(self, class_home=None, timeout_ms=10000):
        self.class_home = dict(class_home or {})  # class name -> repo-relative file (for class constants / bases)
        self.timeout_ms = timeout_ms
        self.reset()

    def reset(self):
        self.spec_depth = 0
        self.obligations = []
        self.cur_name = ""
        self.cur_rel = ""
        self.path_no = 0
        self.inputs = None
        self.site_index = {}
        self.loop_index = {}
        self.inline_prefix = []
        self.inline_depth = 0
        self.trusted_axioms = set()
        self.assumptions = set()
        self.pending_assumes = []
        self.bound_ranges = []
        self._class_const_cache = {}
        self._resolve_cache = {}
        self.implicit_inlined = set()
        self.contract_stack = []
        self.callees = set()
        self.used_lemmas = set()
        self.mutated_names = set()
        self.rebound_params = set()
        self.hint_no = 0
        self.path_limit = 400
        self._modconst_cache = {}

    # ---- context helpers used by the mixins
    def flush_pending(self, st):
        for a in self.pending_assumes:
            st.assume(a)
        self.pending_assumes = []

    def module_consts(self):
        rel = self.cur_rel
        if rel not in self._modconst_cache:
            try:
                d = dict(front.imported_constants(rel))
                d.update(front.module_constants(rel))
                self._modconst_cache[rel] = d
            except front.Missing:
                self._modconst_cache[rel] = {}
        return self._modconst_cache[rel]

    def cur_contract_consts(self):
        return self.contract_stack[-1].consts if self.contract_stack else {}

    def cur_bind(self):
        return self.contract_stack[-1].bind if self.contract_stack else {}

    def old_state(self, st):
        e = st.entry
        s = State(e.vars)
        s.entry = e
        return s

    # ---- indexing of the function's AST
    def index_function(self, fdef):
        self.site_index = {}
        counters = {}
        abbrev = {"Subscript": "sub", "BinOp": "op", "Call": "call", "Assert": "assert", "Compare": "cmp",
                  "Attribute": "attr", "For": "for", "While": "while", "Return": "ret", "Raise": "raise"}
        nodes = [n for n in ast.walk(fdef) if hasattr(n, "lineno")]
        nodes.sort(key=lambda n: (n.lineno, n.col_offset, -getattr(n, "end_col_offset", 0)))
        for n in nodes:
            t = type(n).__name__
            a = abbrev.get(t, t.lower())
            k = counters.get(a, 0)
            counters[a] = k + 1
            self.site_index[id(n)] = "%s%d" % (a, k)
        loops = [n for n in nodes if isinstance(n, (ast.For, ast.While))]
        self.loop_index = {id(n): i for i, n in enumerate(loops)}
        self.mutated_names = set()
        params = {a.arg for a in fdef.args.args}
        self.rebound_params = set()
        for n in ast.walk(fdef):
            if isinstance(n, ast.Assign):
                for t in n.targets:
                    if isinstance(t, ast.Name) and t.id in params:
                        self.rebound_params.add(t.id)
        for n in ast.walk(fdef):
            tgt = None
            if isinstance(n, ast.Call) and isinstance(n.func, ast.Attribute) and n.func.attr in MUTATORS:
                tgt = n.func.value
            elif isinstance(n, (ast.Assign, ast.AugAssign)):
                for t in (n.targets if isinstance(n, ast.Assign) else [n.target]):
                    if isinstance(t, (ast.Subscript, ast.Attribute)):
                        r = t
                        while isinstance(r, (ast.Subscript, ast.Attribute)):
                            r = r.value
                        if isinstance(r, ast.Name):
                            self.mutated_names.add(r.id)
            if tgt is not None:
                while isinstance(tgt, (ast.Subscript, ast.Attribute)):
                    tgt = tgt.value
                if isinstance(tgt, ast.Name):
                    self.mutated_names.add(tgt.id)

    # ---- VC generation for one contracted function
    def generate(self, c, extra_ensures=None, drop_ensures=False):
        """All VCs of contract c.  With c.cases = {param: [constants]} the function is verified once per combination
        (the parameter is a constant in each run) and the obligations are pooled."""
        cases = getattr(c, "cases", None)
        if not cases:
            r = self.generate1(c, extra_ensures, drop_ensures, {})
            for ob in self.obligations:
                ob.reveal = tuple(c.reveal)
            return r
        import itertools
        names = sorted(cases)
        allobs = []
        tot = 0
        acc = [set(), set(), set(), set()]
        for combo in itertools.product(*[cases[n] for n in names]):
            pin = dict(zip(names, combo))
            n, fdef, text = self.generate1(c, extra_ensures, drop_ensures, pin)
            tot += n
            allobs += self.obligations
            for a, b in zip(acc, (self.assumptions, self.trusted_axioms, self.callees, self.used_lemmas)):
                a |= b
        self.obligations = allobs
        self.assumptions, self.trusted_axioms, self.callees, self.used_lemmas = acc
        for ob in self.obligations:
            ob.reveal = tuple(c.reveal)
        return tot, fdef, text

    def generate1(self, c, extra_ensures, drop_ensures, pin):
        self.reset()
        fdef, text, cls = front.find_def(c.qual)
        if c.extract:
            fdef = ast.fix_missing_locations(c.extract(fdef))
            self.assumptions.add("%s: verified text is extracted mechanically from the real AST on every run: %s"
                                 % (c.name, (c.extract.__doc__ or "").strip().split("\n")[0]))
        self.cur_name = c.name
        self.cur_rel = c.qual.split(":")[0]
        self.contract_stack = [c]
        if c.path_limit:
            self.path_limit = c.path_limit
        self.index_function(fdef)
        params = [a.arg for a in fdef.args.args]
        for p in params:
            if p not in c.args:
                raise Unsupported("contract of %s does not declare parameter %s" % (c.qual, p))
        st = State()
        inputs = {}
        for p in params:
            tstr = c.args[p]
            if tstr is None:
                continue
            v = fresh(T.parse_type(tstr), p)
            if p in pin:
                v = VInt(pin[p]) if isinstance(pin[p], int) else VStr(pin[p])
            st.vars[p] = v
            inputs[p] = v
            for w in wf(v):
                st.assume(w)
        for g, tstr in c.ghost.items():
            v = fresh(T.parse_type(tstr), g)
            st.vars[g] = v
            inputs[g] = v
            for w in wf(v):
                st.assume(w)
        self.inputs = inputs
        entry = State(st.vars)
        entry.entry = entry
        st.entry = entry
        for r in c.requires:
            st.assume(self.spec_bool(r, st))
        if c.known:
            st.assume(z3.Not(self.spec_bool(c.known, st)))
        for h in c.hints.get("entry", []):
            self.assume_hint(st, h)
        self.pre_conds = list(st.pc)
        ensures = ([] if drop_ensures else list(c.ensures)) + list(extra_ensures or [])
        body = front.strip_doc(fdef.body)
        if c.slice:
            # mechanical cut: statements from the first one whose text starts with slice["from"] up to (not including)
            # the first later one whose text starts with slice["to"]; everything before is havocked (fresh state)
            texts = [ast.unparse(b) for b in body]
            lo = next((k for k, t in enumerate(texts) if t.startswith(c.slice["from"])), None)
            hi = next((k for k, t in enumerate(texts) if lo is not None and k > lo and t.startswith(c.slice["to"])), None) \
                if c.slice.get("to") else len(body)
            if lo is None or hi is None:
                raise front.Missing("slice markers of %s not found in the current source" % c.qual)
            body = body[lo:hi]
            self.slice_lines = (body[0].lineno, body[-1].end_lineno)
            self.assumptions.add("%s: only the slice lines %d-%d is verified; statements before it are havocked, after it ignored"
                                 % (c.name, body[0].lineno, body[-1].end_lineno))
        is_gen = any(isinstance(n, ast.Yield) for n in ast.walk(fdef))
        if is_gen:
            rt = T.parse_type(c.returns)
            if not isinstance(rt, T.TList):
                raise Unsupported("a generator's contract must declare returns=list[...] (the yielded sequence)")
            st.vars["_yield"] = zero_value(rt)
            self.assumptions.add("%s is a generator: its result is read as the full sequence of yielded values" % c.name)
        outs = self.exec_block(body, st)
        npaths = 0
        for s2, sig in outs:
            npaths += 1
            self.path_no = npaths
            if sig is not None and sig[0] == "raise":
                cond = c.raises.get(sig[1])
                node = sig[2]
                if cond is None:
                    g = z3.BoolVal(False)
                    info = "raises %s, not permitted by the contract" % sig[1]
                else:
                    g = self.spec_bool(cond, self.old_state(s2))
                    info = "raises %s only when: %s" % (sig[1], cond)
                self.obligations.append(Obligation(self.cur_name, "raise", self.site_id("raise", node), s2.conds(), g,
                                                   info, npaths, inputs, node.lineno))
                continue
            if sig is not None and sig[0] in ("break", "continue"):
                raise Unsupported("break/continue outside loop")
            res = sig[1] if sig is not None else VNone()
            if is_gen:
                res = s2.vars["_yield"]
            if c.returns not in (None, "none", "None") and isinstance(res, VOpt) and res.ity == T.parse_type(c.returns):
                # declared non-optional: returning None here would be a type violation
                self.obligations.append(Obligation(self.cur_name, "post", "type", s2.conds(), z3.Not(res.isnone),
                                                   "returns None where the contract declares %s" % c.returns,
                                                   npaths, inputs, getattr(fdef, "lineno", 0)))
                s2.assume(z3.Not(res.isnone))
                res = res.v
            if c.returns not in (None,) and not isinstance(res, VFunc):
                try:
                    res = coerce(res, T.parse_type(c.returns)) if c.returns not in ("none", "None") else res
                except Unsupported as e:
                    # the function returns a value of another type than its contract declares on this path
                    self.obligations.append(Obligation(self.cur_name, "post", "type", s2.conds(), z3.BoolVal(False),
                                                       "returns %s where the contract declares %s" % (res.ty, c.returns),
                                                       npaths, inputs, getattr(fdef, "lineno", 0)))
                    continue
            # in ensures, parameters of immutable type denote their entry values (as in the native reading, where the
            # caller's ints/tuples cannot be changed by the callee); mutable ones denote the object's final state
            post_env = {p: v for p, v in entry.vars.items()
                        if not isinstance(v, (VList, VDict, VSet, VRec)) and p not in c.ghost}
            # a parameter name that the body re-binds (x = ...) no longer denotes the caller's object: ensures see the
            # caller's object, which is unchanged unless the body also mutates it in place (not supported together)
            for p in self.rebound_params:
                if p in entry.vars and p not in post_env and p not in c.ghost:
                    if p in self.mutated_names:
                        raise Unsupported("parameter %s is both re-bound and mutated in place" % p)
                    post_env[p] = entry.vars[p]
            post_env["result"] = res
            for h in c.hints.get("exit", []):
                self.assume_hint(s2, h, post_env)
            for j, e in enumerate(ensures):
                g = self.spec_bool(e, s2, post_env)
                self.obligations.append(Obligation(self.cur_name, "post", "E%d" % j, s2.conds(), g, "ensures: " + e,
                                                   npaths, inputs, getattr(fdef, "lineno", 0)))
            self.frame_obligations(c, s2, entry, npaths, fdef)
        return npaths, fdef, text

    def frame_obligations(self, c, s2, entry, npaths, fdef):
        mods = c.modifies

        def allowed(path):
            return any(m == path or m.startswith(path + ".") and False or path.startswith(m + ".") or m == path
                       for m in mods)

        for p, v0 in entry.vars.items():
            if p in c.ghost:
                continue
            v1 = s2.vars.get(p)
            if v1 is None or v1 is v0:
                continue
            if isinstance(v0, VRec):
                for f in v0.f:
                    path = "%s.%s" % (p, f)
                    if allowed(path) or allowed(p) or v1.f[f] is v0.f[f]:
                        continue
                    if isinstance(v0.f[f], VRec) and any(m.startswith(path + ".") for m in mods):
                        for f2 in v0.f[f].f:
                            p2 = path + "." + f2
                            if allowed(p2) or v1.f[f].f[f2] is v0.f[f].f[f2]:
                                continue
                            self.obligations.append(Obligation(self.cur_name, "frame", p2, s2.conds(),
                                                               eq(v1.f[f].f[f2], v0.f[f].f[f2]),
                                                               "%s is not in modifies and must be unchanged" % p2,
                                                               npaths, self.inputs, fdef.lineno))
                        continue
                    self.obligations.append(Obligation(self.cur_name, "frame", path, s2.conds(), eq(v1.f[f], v0.f[f]),
                                                       "%s is not in modifies and must be unchanged" % path, npaths,
                                                       self.inputs, fdef.lineno))
            elif isinstance(v0, (VList, VDict, VSet)):
                if allowed(p):
                    continue
                # rebinding a parameter name is not a mutation of the caller's object; only in-place updates are.
                if p not in self.mutated_names:
                    continue
                self.obligations.append(Obligation(self.cur_name, "frame", p, s2.conds(), eq(v1, v0),
                                                   "%s is not in modifies and must be unchanged" % p, npaths,
                                                   self.inputs, fdef.lineno))

    # ---- lemma obligations
    def generate_lemma(self, l):
        self.reset()
        self.cur_name = "lemma:" + l.name
        st = State()
        inputs = {}
        for p, tstr in l.params.items():
            v = fresh(T.parse_type(tstr), p)
            st.vars[p] = v
            inputs[p] = v
            for w in wf(v):
                st.assume(w)
        self.inputs = inputs
        st.entry = st
        for r in l.requires:
            st.assume(self.spec_bool(r, st))
        for u in l.uses:
            self.assume_hint(st, u)
        if l.induct:
            # induction hypothesis: the lemma at induct-1 (all other parameters as they are)
            n = st.vars[l.induct]
            s_prev = State(dict(st.vars))
            s_prev.vars[l.induct] = VInt(n.t - 1)
            base = l.base if l.base is not None else "0"
            b = self.spec_eval(base, st)
            pre_prev = [self.spec_bool(r, s_prev) for r in l.requires]
            post_prev = [self.spec_bool(e, s_prev) for e in l.ensures]
            st.assume(z3.Implies(z3.And(n.t > b.t, zand(*pre_prev)), zand(*post_prev)))
        for j, e in enumerate(l.ensures):
            ob = Obligation(self.cur_name, "lemma", "E%d" % j, st.conds(), self.spec_bool(e, st),
                            "lemma %s: %s" % (l.name, e), 0, inputs, 0)
            ob.reveal = tuple(l.reveal)
            self.obligations.append(ob)


# -------------------------------------------------------------------------------------------------------------

def solve(ob, timeout_ms):
    """-> (status, seconds, model|None)   status: unsat (discharged) | sat | unknown"""
    t0 = time.time()
    g = z3.simplify(ob.goal)
    if z3.is_true(g):
        return "unsat", 0.0, None, "trivial"
    axioms = relevant_axioms(ob)

    def attempt(ematch_only, tmo):
        s = z3.Solver()
        s.set("timeout", int(tmo))
        if ematch_only:
            s.set("auto_config", False)
            s.set("smt.mbqi", False)
        s.add(*axioms)
        s.add(*ob.assumptions)
        s.add(z3.Not(ob.goal))
        return s, s.check()

    # alternating budgets: E-matching only (fast and stable for most valid VCs), then z3's default configuration (MBQI on; can also
    # produce models), first with short budgets, then with the full one - so that neither mode waits for the other's time-out
    last = None
    saturated = {True: False, False: False}  # the mode gave up before its time-out: a longer budget cannot change its answer
    for ematch, tmo in ((True, min(2000, timeout_ms)), (False, min(5000, timeout_ms)), (True, timeout_ms), (False, timeout_ms)):
        if saturated[ematch]:
            continue
        s, r = attempt(ematch, tmo)
        dt = time.time() - t0
        if r == z3.unsat:
            return "unsat", dt, None, "z3-ematch" if ematch else "z3"
        if r == z3.sat and not ematch:
            try:
                m = s.model()
            except Exception:
                m = None
            return "sat", dt, m, "z3"
        if not ematch:
            last = s
        why = s.reason_unknown() if r == z3.unknown else ""
        if "timeout" not in why and "canceled" not in why:
            saturated[ematch] = True
        if tmo >= timeout_ms:
            saturated[ematch] = True
    return "unknown", time.time() - t0, (last, ), "z3"


def solve_retry(ob, timeout_ms):
    """last resort before an obligation is reported undecided: the same query with other solver seeds and twice the budget (a verdict
    that depends on scheduling or on the machine's load must not flip a green check)"""
    t0 = time.time()
    axioms = relevant_axioms(ob)
    for seed in (7, 23):
        for ematch in (True, False):
            s = z3.Solver()
            s.set("timeout", int(2 * timeout_ms))
            try:
                s.set("random_seed", seed)
            except Exception:
                pass
            if ematch:
                s.set("auto_config", False)
                s.set("smt.mbqi", False)
            s.add(*axioms)
            s.add(*ob.assumptions)
            s.add(z3.Not(ob.goal))
            r = s.check()
            if r == z3.unsat:
                return "unsat", time.time() - t0, None, "z3-retry"
            if r == z3.sat and not ematch:
                try:
                    m = s.model()
                except Exception:
                    m = None
                return "sat", time.time() - t0, m, "z3-retry"
    return "unknown", time.time() - t0, None, "z3"


_SPEC_REFS = {}


def _spec_names(exprs):
    """names of the spec functions (spec_<name>) applied anywhere in the given z3 terms"""
    seen, out, stack = set(), set(), list(exprs)
    while stack:
        e = stack.pop()
        if e.get_id() in seen:
            continue
        seen.add(e.get_id())
        if z3.is_quantifier(e):
            stack.append(e.body())
            for k in range(e.num_patterns()):
                stack.append(e.pattern(k))
            continue
        if z3.is_app(e):
            nm = e.decl().name()
            if nm.startswith("spec_"):
                out.add(nm[5:])
            stack.extend(e.children())
    return out


def relevant_axioms(ob):
    """definitional axioms of exactly the spec functions the obligation mentions, closed under the functions their definitions use; the
    set no longer depends on which other contracts the same worker process happened to verify before (verdict stability)"""
    from .calls import SPEC_AXIOMS, OPAQUE_AXIOMS
    reveal = set(getattr(ob, "reveal", ()))
    todo = _spec_names(list(ob.assumptions) + [ob.goal])
    done = set()
    out = []
    while todo:
        n = todo.pop()
        if n in done:
            continue
        done.add(n)
        ax = SPEC_AXIOMS.get(n)
        if ax is None and n in reveal:
            ax = OPAQUE_AXIOMS.get(n)
        if ax is None:
            continue
        out.append((n, ax))
        if n not in _SPEC_REFS:
            _SPEC_REFS[n] = _spec_names([ax])
        todo |= _SPEC_REFS[n] - done
    return [ax for _, ax in sorted(out, key=lambda x: x[0])]


def smt2_of(ob):
    s = z3.Solver()
    s.add(*relevant_axioms(ob))
    s.add(*ob.assumptions)
    s.add(z3.Not(ob.goal))
    return s.to_smt2()
