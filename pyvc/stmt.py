"""Statement semantics: paths, assignments (with write-back for containers), loops cut at invariants."""
import ast
import z3
from .val import *
from .state import *
from .expr import zand, zor, const_int
from . import api, front
from . import ty as T

MUTATORS = {"append", "extend", "pop", "add", "discard", "remove", "insert", "clear", "update", "sort", "write", "read",
            "popleft", "reverse"}


class StmtMixin:
    # ---- blocks -----------------------------------------------------------------------------------------
    def exec_block(self, stmts, st):
        """returns list of (state, signal); signal None | ('break',) | ('continue',) | ('return', val) | ('raise', name)"""
        states = [(st, None)]
        for s in stmts:
            nxt = []
            for cur, sig in states:
                if sig is not None:
                    nxt.append((cur, sig))
                    continue
                nxt += self.exec_stmt(s, cur)
            states = nxt
            if len(states) > self.path_limit:
                raise PathLimit("more than %d paths" % self.path_limit)
            if not any(sig is None for _, sig in states):
                break
        return states

    def exec_stmt(self, s, st):
        m = getattr(self, "st_" + type(s).__name__, None)
        if m is None:
            self.unsupported(s, "statement form " + type(s).__name__)
        return m(s, st)

    def fork(self, st, cond):
        """-> (state where cond holds | None, state where it fails | None)"""
        c = z3.simplify(cond)
        if z3.is_true(c):
            return st, None
        if z3.is_false(c):
            return None, st
        a = st.copy()
        a.assume(cond)
        b = st
        b.assume(z3.Not(cond))
        if not feasible(a.pc):
            a = None
        if not feasible(b.pc):
            b = None
        for br in (a, b):
            if br is not None:
                self.refine_optionals(br)
        return a, b

    def refine_optionals(self, st):
        """after a branch: optional variables whose None-ness is now decided become plain values / None"""
        for n, v in list(st.vars.items()):
            if isinstance(v, VOpt) and not z3.is_true(v.isnone) and not z3.is_false(v.isnone):
                s1 = z3.Solver()
                s1.set("timeout", 150)
                s1.add(*st.pc[-8:])
                s1.push()
                s1.add(v.isnone)
                if s1.check() == z3.unsat:
                    st.vars[n] = v.v
                    continue
                s1.pop()
                s1.add(z3.Not(v.isnone))
                if s1.check() == z3.unsat:
                    st.vars[n] = VNone()

    # ---- simple statements -------------------------------------------------------------------------------
    def st_Expr(self, s, st):
        if isinstance(s.value, ast.Constant):
            return [(st, None)]
        if isinstance(s.value, ast.Yield):
            # generator: the sequence of yielded values is the function's result (ghost list _yield)
            v = self.ev(s.value.value, st) if s.value.value is not None else VNone()
            cur = st.vars["_yield"]
            v = self.unopt_deep(v, cur.ety, s, st)
            st.vars["_yield"] = VList(cur.ety, cur.n + 1, z3.Store(cur.a, cur.n, pack(coerce(v, cur.ety))))
            return [(st, None)]
        self.ev(s.value, st)
        return [(st, None)]

    def st_Pass(self, s, st):
        return [(st, None)]

    def st_Assign(self, s, st):
        v = self.ev(s.value, st)
        for t in s.targets:
            self.assign_stmt_target(t, v, s.value, st)
            # proof steps attached to "right after <name> is assigned" (hints={"after:<name>": [...]})
            if isinstance(t, ast.Name) and self.contract_stack and not self.inline_prefix:
                for h in self.contract_stack[-1].hints.get("after:" + t.id, []):
                    self.assume_hint(st, h)
        return [(st, None)]

    def st_AnnAssign(self, s, st):
        if s.value is not None:
            self.assign_stmt_target(s.target, self.ev(s.value, st), s.value, st)
        return [(st, None)]

    def assign_stmt_target(self, t, v, value_node, st):
        if isinstance(t, ast.Name):
            # reference semantics: `x = self.foo` / `x = d[k]` where the value is a mutable container -> alias
            if isinstance(v, (VList, VDict, VSet, VRec)) and isinstance(value_node, (ast.Attribute, ast.Subscript)) \
                    and self.is_lvalue_path(value_node) and self.alias_needed(t.id):
                st.vars.pop(t.id, None)
                st.alias[t.id] = self.freeze_path(value_node, st)
                return
            st.alias.pop(t.id, None)
            decl = self.contract_stack[-1].locals if self.contract_stack else {}
            if t.id in decl and not isinstance(v, VFunc):
                try:
                    v = coerce(v, T.parse_type(decl[t.id]))
                except Unsupported:
                    pass  # the name is re-bound to a value of another type (Python allows it); keep the value's own type
            st.vars[t.id] = v
            return
        self.bind_target(t, v, st)

    def alias_needed(self, name):
        return name in self.mutated_names

    def is_lvalue_path(self, n):
        while isinstance(n, (ast.Attribute, ast.Subscript)):
            n = n.value
        return isinstance(n, ast.Name)

    def freeze_path(self, n, st):
        """Replace subscript index expressions by ghost variables holding their current value."""
        if isinstance(n, ast.Name):
            if n.id in st.alias:
                return st.alias[n.id]
            return n
        if isinstance(n, ast.Attribute):
            return ast.Attribute(value=self.freeze_path(n.value, st), attr=n.attr, ctx=ast.Load())
        if isinstance(n, ast.Subscript):
            gname = fresh_name("_frozen")
            st.vars[gname] = self.ev(n.slice, st)
            return ast.Subscript(value=self.freeze_path(n.value, st), slice=ast.Name(id=gname, ctx=ast.Load()), ctx=ast.Load())
        raise Unsupported("alias path")

    def st_AugAssign(self, s, st):
        cur = self.ev(s.target, st)
        rhs = self.ev(s.value, st)
        if isinstance(cur, VList) and isinstance(s.op, ast.Add):
            if isinstance(rhs, VTuple):
                rhs = self.mk_list(rhs.items)
            v = self.list_concat(cur, rhs)
        else:
            v = self.binop(s.op, cur, rhs, s, st)
        self.assign_to(s.target, v, st)
        return [(st, None)]

    def assign_to(self, target, v, st):
        """Functional update along an lvalue path."""
        if isinstance(target, ast.Name):
            if target.id in st.alias:
                return self.assign_to(st.alias[target.id], v, st)
            old = st.vars.get(target.id)
            if old is not None and isinstance(old, VOpt) and not isinstance(v, VOpt) and False:
                v = coerce(v, old.ty)
            st.vars[target.id] = v
            return
        if isinstance(target, ast.Attribute) and isinstance(target.value, ast.Name) and target.value.id not in st.vars \
                and target.value.id not in st.alias and self.contract_stack and \
                "%s.%s" % (target.value.id, target.attr) in self.contract_stack[-1].ignore:
            return
        if isinstance(target, ast.Attribute):
            base = self.ev(target.value, st)
            if isinstance(base, VOpt):
                self.oblige(st, "safety", target, z3.Not(base.isnone), "attribute assignment on None")
                base = base.v
            if not isinstance(base, VRec):
                self.unsupported(target, "attribute assignment on %s" % base.ty)
            if target.attr not in base.ty.fields:
                self.unsupported(target, "field %s not declared in shape %s" % (target.attr, base.ty.rname))
            nf = dict(base.f)
            nf[target.attr] = coerce(v, base.ty.fields[target.attr])
            self.assign_to(target.value, VRec(base.ty, nf), st)
            return
        if isinstance(target, ast.Subscript):
            base = self.ev(target.value, st)
            if isinstance(target.slice, ast.Slice):
                self.unsupported(target, "slice assignment")
            key = self.ev(target.slice, st)
            if isinstance(base, VList):
                idx = self.num(key, target, st)
                i = self.norm_index(base, idx, target, st)
                v = self.unopt_deep(v, base.ety, target, st)
                nb = VList(base.ety, base.n, z3.Store(base.a, i, pack(coerce(v, base.ety))))
            elif isinstance(base, VDict):
                if getattr(base, "empty_literal", False):
                    dty = TDict(key.ty, v.ty)
                    base = VDict(dty, z3.K(sort_of(key.ty), z3.BoolVal(False)),
                                 z3.K(sort_of(key.ty), pack(fresh_default(v.ty))), z3.IntVal(0))
                k = pack(coerce(key, base.kty))
                nb = VDict(base.ty, z3.Store(base.m, k, z3.BoolVal(True)), z3.Store(base.a, k, pack(coerce(v, base.vty))),
                           z3.If(z3.Select(base.m, k), base.c, base.c + 1))
            else:
                self.unsupported(target, "subscript assignment on %s" % base.ty)
            self.assign_to(target.value, nb, st)
            return
        if isinstance(target, (ast.Tuple, ast.List)):
            return self.bind_target(target, v, st)
        self.unsupported(target, "assignment target")

    def st_Delete(self, s, st):
        for t in s.targets:
            if isinstance(t, ast.Subscript):
                base = self.ev(t.value, st)
                if isinstance(base, VDict):
                    k = pack(coerce(self.ev(t.slice, st), base.kty))
                    self.oblige(st, "safety", t, z3.Select(base.m, k), "KeyError in del")
                    self.assign_to(t.value, VDict(base.ty, z3.Store(base.m, k, z3.BoolVal(False)), base.a, base.c - 1), st)
                    continue
                if isinstance(base, VList) and not isinstance(t.slice, ast.Slice):
                    # del L[i]: the elements after position i move down by one (in place: aliases see it)
                    idx = self.num(self.ev(t.slice, st), t, st)
                    i = self.norm_index(base, idx, t, st)
                    j = z3.Int(fresh_name("dj"))
                    arr = z3.Lambda([j], z3.If(j < i, z3.Select(base.a, j), z3.Select(base.a, j + 1)))
                    self.mutate(t.value, VList(base.ety, base.n - 1, arr), st)
                    continue
            self.unsupported(s, "del form")
        return [(st, None)]

    def st_Assert(self, s, st):
        c = self.ev_bool(s.test, st)
        self.oblige(st, "assert", s, c, "source assert: " + ast.unparse(s.test)[:60])
        return [(st, None)]

    def st_Return(self, s, st):
        v = self.ev(s.value, st) if s.value is not None else VNone()
        return [(st, ("return", v))]

    def st_Raise(self, s, st):
        name = "Exception"
        if s.exc is not None:
            e = s.exc
            if isinstance(e, ast.Call):
                e = e.func
            if isinstance(e, ast.Name):
                name = e.id
        return [(st, ("raise", name, s))]

    def st_Break(self, s, st):
        return [(st, ("break",))]

    def st_Continue(self, s, st):
        return [(st, ("continue",))]

    def st_Global(self, s, st):
        self.unsupported(s, "global statement")

    def st_If(self, s, st):
        c = self.ev_bool(s.test, st)
        a, b = self.fork(st, c)
        out = []
        if a is not None:
            out += self.exec_block(s.body, a)
        if b is not None:
            out += self.exec_block(s.orelse, b) if s.orelse else [(b, None)]
        return out

    def st_Try(self, s, st):
        """try: <one statement whose (single, outermost) call is to a contracted callee with `raises`>  except E: handler
        The callee's contract says exactly when it raises E; the statement is split on that condition."""
        if s.finalbody or s.orelse or len(s.body) != 1:
            self.unsupported(s, "try statement form")
        stmt = s.body[0]
        top = stmt.value if isinstance(stmt, (ast.Assign, ast.Expr)) else None
        if not isinstance(top, ast.Call):
            self.unsupported(s, "try body is not a single call")
        # the call that may raise: the contracted callee with a `raises` clause, possibly wrapped in conversions (str(x.get_tag(..)))
        c = recv = call = None
        for cand in [n for n in ast.walk(top) if isinstance(n, ast.Call)]:
            f = cand.func
            name = f.attr if isinstance(f, ast.Attribute) else getattr(f, "id", None)
            c2, recv2 = None, None
            try:
                if isinstance(f, ast.Attribute):
                    rv = self.ev(f.value, st)
                    if isinstance(rv, VRec):
                        c2 = self.resolve_user(name, rv.ty.rname)
                        recv2 = rv
                elif name is not None and not hasattr(self, "bi_" + name):
                    c2 = self.resolve_user(name)
            except Unsupported:
                c2 = None
            if c2 is not None and c2.raises:
                c, recv, call = c2, recv2, cand
                break
        if c is None or not c.raises:
            self.unsupported(s, "try around a callee without a `raises` contract")
        fdef, _, _ = self.callee_def(c)
        args, kw = self.args_of(call, st)
        if recv is not None:
            args = [recv] + args
        params, bound = self.bind_params(c, fdef, args, kw, call, st)
        cs = State(bound)
        cs.entry = cs
        out = []
        handled = set()
        cur = st
        for h in s.handlers:
            hn = h.type.id if isinstance(h.type, ast.Name) else None
            if hn not in c.raises:
                continue
            handled.add(hn)
            cond = self.spec_bool(c.raises[hn], cs)
            a, cur = self.fork(cur, cond)
            if a is not None:
                out += self.exec_block(h.body, a)
            if cur is None:
                return out
        for en, cnd in c.raises.items():
            if en not in handled:
                cond = self.spec_bool(cnd, cs)
                a, cur = self.fork(cur, cond)
                if a is not None:
                    out.append((a, ("raise", en, s)))
                if cur is None:
                    return out
        # no exception: the statement executes normally (the callee contract's requires may mention not-raising)
        self.no_raise = getattr(self, "no_raise", 0) + 1
        try:
            out += self.exec_stmt(stmt, cur)
        finally:
            self.no_raise -= 1
        return out

    def st_With(self, s, st):
        self.unsupported(s, "with statement")

    # ---- loops --------------------------------------------------------------------------------------------
    def loop_spec(self, node):
        c = self.contract_stack[-1]
        k = self.loop_index.get(id(node))
        key = k if not self.inline_prefix else None
        spec = c.loops.get(k, {}) if k is not None else {}
        return k, spec

    def modified_in(self, body):
        """Syntactic frame of a loop body: names (roots of lvalue paths) that may be modified."""
        names = set()
        paths = []

        def root_of(n):
            while isinstance(n, (ast.Attribute, ast.Subscript)):
                n = n.value
            return n.id if isinstance(n, ast.Name) else None

        def add_target(t):
            if isinstance(t, (ast.Tuple, ast.List)):
                for e in t.elts:
                    add_target(e)
                return
            r = root_of(t)
            if r is not None:
                names.add(r)
                paths.append(t)

        for n in ast.walk(ast.Module(body=list(body), type_ignores=[])):
            if isinstance(n, ast.Assign):
                for t in n.targets:
                    add_target(t)
            elif isinstance(n, (ast.AugAssign, ast.AnnAssign)):
                add_target(n.target)
            elif isinstance(n, ast.For):
                add_target(n.target)
            elif isinstance(n, ast.Delete):
                for t in n.targets:
                    add_target(t)
            elif isinstance(n, ast.Call):
                f = n.func
                if isinstance(f, ast.Attribute):
                    if f.attr in MUTATORS:
                        add_target(f.value)
                    else:
                        # method with a contract that modifies its receiver / arguments
                        self.callee_frame(n, add_target)
                elif isinstance(f, ast.Name):
                    self.callee_frame(n, add_target)
            elif isinstance(n, ast.Yield):
                names.add("_yield")
        return names, paths

    def callee_frame(self, call, add_target):
        f = call.func
        name = f.attr if isinstance(f, ast.Attribute) else f.id
        cands = api.by_short_name(name)
        for c in cands:
            if not c.modifies:
                continue
            try:
                fdef, _, _ = front.find_def(c.qual)
            except front.Missing:
                continue
            params = [a.arg for a in fdef.args.args]
            recv = f.value if isinstance(f, ast.Attribute) else None
            an = self.arg_nodes(fdef, params, call, recv)
            for m in c.modifies:
                root = m.split(".")[0].split("[")[0]
                if root in an:
                    try:
                        from .calls import _replace_root
                        add_target(_replace_root(ast.parse(m, mode="eval").body, an[root]))
                    except Exception:
                        add_target(an[root])

    def havoc_for_loop(self, st, names, spec, node, paths=()):
        decl = dict(self.contract_stack[-1].locals)
        decl.update(spec.get("locals", {}))
        unbound = set()
        # roots that are records and only modified through attribute paths: havoc just those attributes
        by_root = {}
        for pth in paths:
            r = pth
            while isinstance(r, (ast.Attribute, ast.Subscript)):
                r = r.value
            if isinstance(r, ast.Name):
                by_root.setdefault(r.id, []).append(pth)
        partial = {}
        for root, pths in by_root.items():
            cur = st.vars.get(root)
            if root in st.alias or not isinstance(cur, VRec):
                continue
            subs = []
            ok = True
            for pth in pths:
                # longest pure-attribute prefix
                chain = []
                n2 = pth
                while isinstance(n2, (ast.Attribute, ast.Subscript)):
                    chain.append(n2)
                    n2 = n2.value
                chain.reverse()
                pref = None
                for c_ in chain:
                    if isinstance(c_, ast.Attribute):
                        pref = c_
                    else:
                        break
                if pref is None:
                    ok = False
                    break
                subs.append(pref)
            if ok and subs:
                partial[root] = subs
        for root, subs in partial.items():
            for sub in subs:
                try:
                    curv = self.ev(sub, st)
                except Unsupported:
                    continue
                if isinstance(curv, VFunc):
                    continue
                nv = fresh(curv.ty, ast.unparse(sub).replace(".", "_"))
                for w in wf(nv):
                    st.assume(w)
                self.assign_to(sub, nv, st)
        for n in sorted(names):
            if n in partial:
                continue
            tgt = ast.Name(id=n, ctx=ast.Load())
            if n in st.alias:
                cur = self.ev(st.alias[n], st)
                nv = fresh(cur.ty, n)
                for w in wf(nv):
                    st.assume(w)
                self.assign_to(st.alias[n], nv, st)
                continue
            if n in decl:
                ty = T.parse_type(decl[n])
            elif n in st.vars:
                cur = st.vars[n]
                if isinstance(cur, VFunc):
                    continue
                if getattr(cur, "empty_literal", False):
                    raise Unsupported("loop modifies %s whose element type is unknown: declare it in locals" % n)
                ty = cur.ty
                if ty == NONE:
                    raise Unsupported("loop modifies %s which is None before the loop: declare its type in locals" % n)
            else:
                unbound.add(n)
                continue
            nv = fresh(ty, n)
            for w in wf(nv):
                st.assume(w)
            st.vars[n] = nv
        return unbound

    def check_invs(self, st, spec, kind, node, k, extra=None):
        for j, inv in enumerate(spec.get("inv", [])):
            g = self.spec_bool(inv, st, extra)
            self.obligations.append(Obligation(self.cur_name, kind, "L%s.%d" % (k, j), st.conds(), g,
                                               "loop %s invariant: %s" % (k, inv), self.path_no, self.inputs,
                                               getattr(node, "lineno", 0)))

    def assume_invs(self, st, spec, extra=None):
        for inv in spec.get("inv", []):
            st.assume(self.spec_bool(inv, st, extra))
        for h in spec.get("hints", []):
            self.assume_hint(st, h, extra)

    def st_While(self, s, st):
        if self.inline_prefix:
            self.unsupported(s, "loop inside a transparent callee")
        k, spec = self.loop_spec(s)
        self.check_invs(st, spec, "inv-entry", s, k)
        names, mpaths = self.modified_in(s.body + s.orelse)
        head = st.copy()
        unbound = self.havoc_for_loop(head, names, spec, s, mpaths)
        for u in unbound:
            head.vars.pop(u, None)
        self.assume_invs(head, spec)
        variant0 = self.spec_eval(spec["decreases"], head) if "decreases" in spec else None
        out = []
        c = self.ev_bool(s.test, head)
        a, b = self.fork(head, c)
        if a is not None:
            for s2, sig in self.exec_block(s.body, a):
                out += self.loop_iter_end(s2, sig, spec, s, k, variant0)
        if b is not None:
            for u in unbound:
                b.vars.pop(u, None)
            for h in spec.get("exit_hints", []):
                self.assume_hint(b, h)
            out += self.exec_block(s.orelse, b) if s.orelse else [(b, None)]
        return out

    def loop_iter_end(self, s2, sig, spec, node, k, variant0, extra_fn=None):
        if sig is None or sig[0] == "continue":
            extra = extra_fn(s2) if extra_fn else None
            for h in spec.get("hints", []):
                self.assume_hint(s2, h, extra)
            self.check_invs(s2, spec, "inv-pres", node, k, extra)
            if variant0 is not None:
                v1 = self.spec_eval(spec["decreases"], s2, extra)
                g = z3.And(lex_lt(v1, variant0, True), lex_lt(VInt(0), variant0, False)
                           if isinstance(variant0, VInt) else z3.BoolVal(True))
                self.obligations.append(Obligation(self.cur_name, "term", "L%s" % k, s2.conds(), g,
                                                   "loop %s variant decreases and is bounded" % k, self.path_no,
                                                   self.inputs, node.lineno))
            return []
        if sig[0] == "break":
            for h in spec.get("exit_hints", []):
                self.assume_hint(s2, h)
            return [(s2, None)]
        return [(s2, sig)]

    def unroll_for(self, s, st, elem_fn, n):
        """constant trip count: the loop is executed iteration by iteration (exact, no invariant needed)"""
        live = [(st, None)]
        done = []
        for it in range(n):
            nxt = []
            for cur, sig in live:
                self.bind_target(s.target, elem_fn(z3.IntVal(it)), cur)
                for s2, sg in self.exec_block(s.body, cur):
                    if sg is None or sg[0] == "continue":
                        nxt.append((s2, None))
                    elif sg[0] == "break":
                        done.append((s2, None))
                    else:
                        done.append((s2, sg))
            live = nxt
            if len(live) + len(done) > self.path_limit:
                raise PathLimit("more than %d paths while unrolling" % self.path_limit)
        out = list(done)
        for cur, _ in live:
            out += self.exec_block(s.orelse, cur) if s.orelse else [(cur, None)]
        return out

    def st_For(self, s, st):
        k, spec = self.loop_spec(s) if not self.inline_prefix else (None, {})
        kname = "_k%s" % k
        it = s.iter
        target = s.target
        # ---- iteration domain: sequence of (count, element(k))
        elem_fn = None
        visited_mode = None
        if isinstance(it, ast.Call) and isinstance(it.func, ast.Name) and it.func.id == "range":
            args = []
            for a in it.args:
                if isinstance(a, ast.Starred):
                    v = self.ev(a.value, st)
                    if isinstance(v, VOpt):
                        self.oblige(st, "safety", s, z3.Not(v.isnone), "range(*None)")
                        v = v.v
                    if not isinstance(v, VTuple):
                        self.unsupported(s, "range(*x) of %s" % v.ty)
                    args += [self.num(x, s, st) for x in v.items]
                else:
                    args.append(self.num(self.ev(a, st), s, st))
            if len(args) == 1:
                lo, hi, step = z3.IntVal(0), args[0].t, 1
            elif len(args) == 2:
                lo, hi, step = args[0].t, args[1].t, 1
            else:
                lo, hi = args[0].t, args[1].t
                step = const_int(args[2])
                if step not in (1, -1):
                    self.unsupported(s, "range step other than +-1")
            if step == 1:
                count = z3.If(hi > lo, hi - lo, 0)
                elem_fn = lambda kk: VInt(lo + kk)
            else:
                count = z3.If(lo > hi, lo - hi, 0)
                elem_fn = lambda kk: VInt(lo - kk)
        elif isinstance(it, ast.Call) and isinstance(it.func, ast.Name) and it.func.id == "enumerate":
            seq = self.ev(it.args[0], st)
            if isinstance(seq, VSet) and not getattr(seq, "empty_literal", False):
                seq = self.list_of_set(seq, st)
            if not isinstance(seq, VList):
                self.unsupported(s, "enumerate of %s" % seq.ty)
            count = seq.n
            elem_fn = lambda kk: VTuple([VInt(kk), seq.get(kk)])
        elif isinstance(it, ast.Call) and isinstance(it.func, ast.Name) and it.func.id == "zip":
            seqs = [self.ev(a, st) for a in it.args]
            if not all(isinstance(q, VList) for q in seqs):
                self.unsupported(s, "zip of non-lists")
            count = seqs[0].n
            for q in seqs[1:]:
                count = z3.If(q.n < count, q.n, count)
            elem_fn = lambda kk: VTuple([q.get(kk) for q in seqs])
        else:
            seq = self.ev(it, st)
            if isinstance(seq, VOpt):
                self.oblige(st, "safety", s, z3.Not(seq.isnone), "iteration over None")
                seq = seq.v
            if isinstance(seq, VTuple):
                seq = self.mk_list(seq.items)
            if isinstance(seq, VDict):
                if getattr(seq, "empty_literal", False):
                    return self.exec_block(s.orelse, st) if s.orelse else [(st, None)]
                seq = VSet(seq.kty, seq.m, seq.c)
            if isinstance(seq, VSet):
                if getattr(seq, "empty_literal", False):
                    return self.exec_block(s.orelse, st) if s.orelse else [(st, None)]
                # arbitrary enumeration order of the members
                seq = self.list_of_set(seq, st)
            if isinstance(seq, VList):
                if getattr(seq, "empty_literal", False):
                    return self.exec_block(s.orelse, st) if s.orelse else [(st, None)]
                count = seq.n
                elem_fn = lambda kk: seq.get(kk)
                if not self.inline_prefix:
                    st.vars["_seq%s" % k] = seq  # ghost: the sequence being iterated (for a set: its arbitrary enumeration)
            else:
                self.unsupported(s, "for over %s" % seq.ty)
        count = z3.simplify(count)
        ccount = const_int(VInt(count))
        if ccount is not None and ccount <= 16 and (self.inline_prefix or spec.get("unroll") or (not spec.get("inv") and ccount <= 4)):
            return self.unroll_for(s, st, elem_fn, ccount)
        if self.inline_prefix:
            self.unsupported(s, "loop with symbolic trip count inside a transparent callee")
        # ---- entry: invariants with _k = 0
        entry_extra = {kname: VInt(0)}
        self.check_invs(st, spec, "inv-entry", s, k, entry_extra)
        names, mpaths = self.modified_in(s.body + s.orelse)
        tnames = set()
        for n in ast.walk(target):
            if isinstance(n, ast.Name):
                tnames.add(n.id)
        names |= tnames
        head = st.copy()
        unbound = self.havoc_for_loop(head, names - tnames, spec, s, mpaths)
        kk = z3.Int(fresh_name(kname))
        head.vars[kname] = VInt(kk)
        head.assume(z3.And(0 <= kk, kk <= count))
        # loop variable: value of the last completed iteration
        tsaved = {n: head.vars.get(n) for n in tnames}
        if True:
            last = elem_fn(kk - 1)
            tmp = head.copy()
            try:
                self.bind_target(target, last, tmp)
                for n in tnames:
                    if n in st.vars and st.vars[n].ty == tmp.vars[n].ty:
                        head.vars[n] = ite(kk > 0, tmp.vars[n], st.vars[n])
                    else:
                        head.vars[n] = tmp.vars[n]  # unbound before the first iteration; value irrelevant when kk == 0
            except Unsupported:
                for n in tnames:
                    head.vars.pop(n, None)
        for u in unbound:
            head.vars.pop(u, None)
        # ghost: the values at the head of this iteration, for hints that relate the state before and after the body
        for n_ in list(head.vars):
            if not n_.startswith("_"):
                head.vars["_at_head_" + n_] = head.vars[n_]
        self.assume_invs(head, spec)
        out = []
        a, b = self.fork(head, kk < count)
        if a is not None:
            self.bind_target(target, elem_fn(kk), a)
            a.vars[kname] = VInt(kk)
            for s2, sig in self.exec_block(s.body, a):
                out += self.loop_iter_end(s2, sig, spec, s, k, None, extra_fn=lambda s_: {kname: VInt(kk + 1)})
        if b is not None:
            b.assume(kk == count)
            for u in unbound:
                b.vars.pop(u, None)
            for h in spec.get("exit_hints", []):
                self.assume_hint(b, h)
            out += self.exec_block(s.orelse, b) if s.orelse else [(b, None)]
        return out
