# Reads whose introns lie outside the annotated gene range: every intron is GT-AG on the reported strand, so Canonical must be True.
# Found at baseline by the agent that wrote the C18 memo seed (exit 1 before the repair in /repo: the second pass cut the reference
# sequence at the gene range stored in the temp file). Reuses the pipeline driver and the FASTA recount of demo_base.py.
import sys, os, random
sys.path.insert(0, os.path.dirname(os.path.abspath(__file__)))
import demo_base as demo

def make_reference():
    rnd = random.Random(18)
    seq = [rnd.choice("ACGT") for _ in range(demo.CHR_LEN)]
    def put(intron, left, right):
        seq[intron[0] - 1:intron[0] + 1] = list(left)
        seq[intron[1] - 2:intron[1]] = list(right)
    for intron in [(1101, 1200), (1301, 1400), (1501, 1600)]:
        put(intron, "GT", "AG")
    return "".join(seq)

demo.make_reference = make_reference
# gene range == transcript range (the usual case); reads extend beyond the gene on either side
demo.GENES = [("G1", "+", (1201, 1500), [(1201, 1300), (1401, 1500)])]
demo.READS = [
    ("up", [(1001, 1100), (1201, 1300), (1401, 1500)], 3),     # extra canonical intron upstream of the gene start
    ("down", [(1201, 1300), (1401, 1500), (1601, 1700)], 3),   # extra canonical intron downstream of the gene end
    ("inside", [(1201, 1300), (1401, 1500)], 3),
]
sys.exit(demo.main())
