import sys, time
sys.path.insert(0, '/verif')
from pyvc import api, engine, run
run.load_contracts()
import z3
q = sys.argv[1]; name = sys.argv[2]
c = api.REG[q]
eng = engine.Engine(run.class_home())
eng.generate(c)
for ob in eng.obligations:
    if name in ob.name:
        ax = engine.relevant_axioms(ob)
        print(ob.name, ob.path, "axioms", len(ax), "reveal", ob.reveal)
        for em in (True, False):
            s = z3.Solver(); s.set("timeout", 30000)
            if em:
                s.set("auto_config", False); s.set("smt.mbqi", False)
            s.add(*ax); s.add(*ob.assumptions); s.add(z3.Not(ob.goal))
            t0=time.time(); r = s.check()
            print("  ematch" if em else "  default", r, s.reason_unknown() if r == z3.unknown else "", "%.2f" % (time.time()-t0))
        if "-s" in sys.argv:
            for a in ob.assumptions: print("   A:", a)
            print("   G:", ob.goal)
