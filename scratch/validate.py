import json, sys, glob
import jsonschema
ms = json.load(open('/root/.vp/MANIFEST.schema.json'))
es = json.load(open('/root/.vp/EVIDENCE.schema.json'))
m = json.load(open('/verif/MANIFEST.json'))
jsonschema.validate(m, ms)
print("MANIFEST ok:", len(m.get("properties", m.get("claimed", []))), "entries")
for f in sorted(glob.glob('/verif/evidence/*.json')):
    try:
        jsonschema.validate(json.load(open(f)), es)
        print("ok", f.split('/')[-1])
    except jsonschema.ValidationError as e:
        print("INVALID", f, e.message[:200])
