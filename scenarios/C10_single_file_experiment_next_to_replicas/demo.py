#!/usr/bin/env python3
"""
Side observation for C10 (unmodified code): grouping by file name is switched on for the
whole invocation as soon as ANY experiment of the list has more than one file
(isoquant.py set_data_dependent_options: args.read_group = "file_name" if
input_data.has_replicas()).  An experiment with a single file that shares the list with
a two-file experiment therefore gets *_grouped_* tables (and a read_group column value
other than NA is irrelevant here) that its stand-alone run does not produce: the set of
files of the experiment depends on its neighbours.

Exit 1 (with a report) when the file set of the single-file experiment differs between the
joint and the stand-alone run, exit 0 + PASS otherwise.
"""
import os
import shutil
import subprocess
import sys
import tempfile

import pysam

ROOT = os.path.dirname(os.path.dirname(os.path.abspath(__file__)))
DATA = os.path.join(ROOT, "tests", "simple_data")

EXPERIMENTS = {
    "solo": [("s.bam", "S_only")],
    "pair": [("p1.bam", "P_rep1"), ("p2.bam", "P_rep2")],
}


def prepare_inputs(workdir):
    data_dir = os.path.join(workdir, "data")
    os.makedirs(data_dir)
    for f in ("chr9.4M.fa.gz", "chr9.4M.gtf.gz"):
        shutil.copy(os.path.join(DATA, f), data_dir)
    src = pysam.AlignmentFile(os.path.join(DATA, "chr9.4M.ont.sim.polya.bam"), "rb")
    names = ["s.bam", "p1.bam", "p2.bam"]
    outs = [pysam.AlignmentFile(os.path.join(data_dir, n), "wb", template=src) for n in names]
    bucket = {}
    for rec in src:
        if rec.query_name not in bucket:
            bucket[rec.query_name] = len(bucket) % len(outs)
        outs[bucket[rec.query_name]].write(rec)
    for o in outs:
        o.close()
    for n in names:
        pysam.index(os.path.join(data_dir, n))
    return data_dir


def run_isoquant(workdir, data_dir, tag, order):
    out_dir = os.path.join(workdir, "out_" + tag)
    home = os.path.join(workdir, "home_" + tag)
    os.makedirs(home)
    list_file = os.path.join(workdir, "list_%s.txt" % tag)
    with open(list_file, "w") as f:
        for i, exp in enumerate(order):
            if i:
                f.write("\n")
            f.write("#%s\n" % exp)
            for bam, label in EXPERIMENTS[exp]:
                f.write("%s:%s\n" % (os.path.join(data_dir, bam), label))
    cmd = [sys.executable, os.path.join(ROOT, "isoquant.py"), "-o", out_dir, "--data_type", "nanopore",
           "--bam_list", list_file, "--genedb", os.path.join(data_dir, "chr9.4M.gtf.gz"), "--complete_genedb",
           "-r", os.path.join(data_dir, "chr9.4M.fa.gz"), "-t", "1", "-p", "C10"]
    res = subprocess.run(cmd, cwd=workdir, env=dict(os.environ, HOME=home), capture_output=True, text=True)
    if res.returncode != 0:
        print("isoquant.py failed (%s)\n%s\n%s" % (tag, res.stdout[-2000:], res.stderr[-2000:]))
        sys.exit(2)
    return out_dir


def files_of(folder):
    return sorted(f for f in os.listdir(folder) if os.path.isfile(os.path.join(folder, f)))


def main():
    workdir = tempfile.mkdtemp(prefix="c10_side_")
    try:
        data_dir = prepare_inputs(workdir)
        alone = files_of(os.path.join(run_isoquant(workdir, data_dir, "alone", ["solo"]), "solo"))
        joint = files_of(os.path.join(run_isoquant(workdir, data_dir, "joint", ["solo", "pair"]), "solo"))
    finally:
        shutil.rmtree(workdir, ignore_errors=True)
    if alone != joint:
        print("FAIL: files of experiment 'solo' depend on the other experiment of the list")
        print("  only in the joint run      : %s" % sorted(set(joint) - set(alone)))
        print("  only in the stand-alone run: %s" % sorted(set(alone) - set(joint)))
        sys.exit(1)
    print("PASS")


if __name__ == "__main__":
    main()
