"""Contracts for the CIGAR walkers of src/common.py and polyA exon trimming (C16)."""
from pyvc.api import contract, spec, lemma, record, finite, bounded
from pyvc import native

C = "src/common.py:"
IVS = "list[tuple[int,int]]"
CIG = "list[tuple[int,int]]"   # (operation code 0..8, length)

contract(C + "CigarEvent.get_match_events", {"cls": None}, returns="set[enum:CigarEvent]", transparent=True, props=[],
         ensures=[], native=False)
contract(C + "CigarEvent.get_ins_del_match_events", {"cls": None}, returns="set[enum:CigarEvent]", transparent=True, props=[],
         ensures=[], native=False)


# SAM semantics: which operations consume the reference / the query (SAM spec section 1.4, CIGAR table)
@spec("int -> bool")
def consumes_ref(op):
    return op == 0 or op == 2 or op == 3 or op == 7 or op == 8      # M D N = X


@spec("int -> bool")
def consumes_query(op):
    return op == 0 or op == 1 or op == 4 or op == 7 or op == 8      # M I S = X


@spec("int -> bool")
def is_match(op):
    return op == 0 or op == 7 or op == 8


@spec("list[tuple[int,int]], int, int -> int")
def R(cig, ref_start, i):
    # 1-based reference position of the first base of operation i (= after the first i operations)
    return ref_start + 1 if i <= 0 else R(cig, ref_start, i - 1) + (cig[i - 1][1] if consumes_ref(cig[i - 1][0]) else 0)


@spec("list[tuple[int,int]], int -> int")
def Q(cig, i):
    return 0 if i <= 0 else Q(cig, i - 1) + (cig[i - 1][1] if consumes_query(cig[i - 1][0]) else 0)


@spec("list[tuple[int,int]], int, int -> bool")
def no_cut(cig, a, b):
    # operations a..b-1 contain neither N nor S (the two operations that end an exon block)
    return all(cig[j][0] != 3 and cig[j][0] != 4 for j in range(a, b))


_BLOCK = ("all(0 <= cigar_blocks[k][0] <= cigar_blocks[k][1] < %s and "
          "ref_blocks[k] == (R(cigar_tuples, ref_start, cigar_blocks[k][0]), R(cigar_tuples, ref_start, cigar_blocks[k][1] + 1) - 1) and "
          "read_blocks[k] == (Q(cigar_tuples, cigar_blocks[k][0]), Q(cigar_tuples, cigar_blocks[k][1] + 1) - 1) and "
          "no_cut(cigar_tuples, cigar_blocks[k][0], cigar_blocks[k][1] + 1) and "
          "any(is_match(cigar_tuples[j][0]) for j in range(cigar_blocks[k][0], cigar_blocks[k][1] + 1)) "
          "for k in range(len(cigar_blocks)))")

contract(C + "get_read_blocks", {"ref_start": "int", "cigar_tuples": CIG}, returns="tuple[%s,%s,%s]" % (IVS, IVS, IVS),
         props=["C16"],
         locals={"ref_blocks": IVS, "read_blocks": IVS, "cigar_blocks": IVS, "current_ref_block_start": "opt[int]",
                 "current_read_block_start": "opt[int]", "current_cigar_block_start": "opt[int]"},
         requires=["ref_start >= 0", "all(0 <= cigar_tuples[j][0] <= 8 and cigar_tuples[j][1] >= 1 for j in range(len(cigar_tuples)))"],
         ensures=["len(result[0]) == len(result[1]) == len(result[2])",
                  # every reported exon is exactly the reference span of a run of operations without N / S that contains a match,
                  # with the read-coordinate block of the same run (SAM consumption table)
                  (_BLOCK % "len(cigar_tuples)").replace("cigar_blocks", "result[2]").replace("ref_blocks", "result[0]").replace("read_blocks", "result[1]"),
                  # blocks are ordered and disjoint in operation space
                  "all(result[2][k][1] < result[2][k + 1][0] for k in range(len(result[2]) - 1))"],
         loops={0: {"inv": [
             "0 <= cigar_index <= len(cigar_tuples)",
             "ref_pos == R(cigar_tuples, ref_start, cigar_index)", "read_pos == Q(cigar_tuples, cigar_index)",
             "(current_ref_block_start is None) == (current_read_block_start is None)",
             "(current_ref_block_start is None) == (current_cigar_block_start is None)",
             "current_ref_block_start is None or (0 <= current_cigar_block_start < cigar_index and "
             "current_ref_block_start == R(cigar_tuples, ref_start, current_cigar_block_start) and current_ref_block_start >= 1 and "
             "current_read_block_start == Q(cigar_tuples, current_cigar_block_start) and "
             "no_cut(cigar_tuples, current_cigar_block_start, cigar_index) and "
             "has_match == any(is_match(cigar_tuples[j][0]) for j in range(current_cigar_block_start, cigar_index)))",
             "current_ref_block_start is not None or not has_match",
             "len(ref_blocks) == len(read_blocks) == len(cigar_blocks)",
             _BLOCK % "cigar_index",
             "all(cigar_blocks[k][1] < cigar_blocks[k + 1][0] for k in range(len(cigar_blocks) - 1))",
             "len(cigar_blocks) == 0 or cigar_blocks[len(cigar_blocks) - 1][1] < (cigar_index if current_cigar_block_start is None else current_cigar_block_start)",
             "all(R(cigar_tuples, ref_start, j) >= 1 for j in range(cigar_index + 1))" if False else "ref_pos >= 1",
         ]}},
         gen=lambda rng, n: ({"ref_start": rng.randint(0, 50),
                              "cigar_tuples": [(rng.choice([0, 0, 1, 2, 3, 4, 5, 7, 8]), rng.randint(1, 4)) for _ in range(rng.randint(0, 7))]}
                             for _ in range(n)),
         shards=8, timeout=30000, path_limit=2000)


# ---- completeness / maximality: bounded-exhaustive against an independently written SAM walker ----------------------------------
def sam_walker(ref_start, cigar):
    """Written from the SAM specification and the property statement, not from the code: split the operations at N and S;
    a run that contains at least one M/=/X becomes one exon [first reference base of the run, last reference base of the run]
    (1-based, closed) with the query block consumed by the run (0-based, closed)."""
    CONSUMES_REF = {0, 2, 3, 7, 8}
    CONSUMES_QRY = {0, 1, 4, 7, 8}
    ref = ref_start + 1
    qry = 0
    exons, qblocks, runs = [], [], []
    run = None  # [ref_first, qry_first, first_op_index, has_match]
    for k, (op, ln) in enumerate(cigar):
        if op in (3, 4):
            if run is not None and run[3]:
                exons.append((run[0], ref - 1)); qblocks.append((run[1], qry - 1)); runs.append((run[2], k - 1))
            run = None
        elif op in (0, 1, 2, 7, 8):
            if run is None:
                run = [ref, qry, k, False]
            if op in (0, 7, 8):
                run[3] = True
        if op in CONSUMES_REF:
            ref += ln
        if op in CONSUMES_QRY:
            qry += ln
    if run is not None and run[3]:
        exons.append((run[0], ref - 1)); qblocks.append((run[1], qry - 1)); runs.append((run[2], len(cigar) - 1))
    return exons, qblocks, runs


def _concat_walk(com, ref_start, cig):
    """the second CIGAR walk of src/common.py: concat_gapless_blocks over the blocks pysam reports (one 0-based half-open block per M/=/X
    operation), then correct_bam_coords"""
    blocks, ref = [], ref_start
    for op, ln in cig:
        if op in (0, 7, 8):
            blocks.append((ref, ref + ln))
        if op in (0, 2, 3, 7, 8):
            ref += ln
    return list(com.correct_bam_coords(com.concat_gapless_blocks(blocks, cig)))


def _valid_clipping(cig):
    """S and H at the ends only (H outermost), as the SAM specification demands"""
    ops = [op for op, _ in cig]
    core = [i for i, op in enumerate(ops) if op not in (4, 5)]
    if not core:
        return False
    return all(op not in (4, 5) for op in ops[core[0]:core[-1] + 1])


def replay_concat(d):
    com = native.repo_import("src/common.py")
    cig = [tuple(x) for x in d["inputs"]["cigar"]]
    got = _concat_walk(com, d["inputs"]["ref_start"], cig)
    want = sam_walker(d["inputs"]["ref_start"], cig)[0]
    return got == want, "cigar %s: concat_gapless_blocks -> %s, SAM walker -> %s" % (cig, got, want)


def replay_alignment_info(d):
    import types
    ai = native.repo_import("src/alignment_info.py")
    cig = [tuple(x) for x in d["inputs"]["cigar"]]
    o = ai.AlignmentInfo(types.SimpleNamespace(reference_start=d["inputs"]["ref_start"], cigartuples=list(cig)))
    want = sam_walker(d["inputs"]["ref_start"], cig)
    got = (o.read_exons, o.read_blocks, o.cigar_blocks)
    return tuple(got) == tuple(want), "cigar %s: AlignmentInfo -> %s, SAM walker -> %s" % (cig, got, want)


def replay_cigar(d):
    com = native.repo_import("src/common.py")
    cig = [tuple(x) for x in d["inputs"]["cigar"]]
    got = com.get_read_blocks(d["inputs"]["ref_start"], cig)
    want = sam_walker(d["inputs"]["ref_start"], cig)
    return tuple(got) == tuple(want), "cigar %s: get_read_blocks -> %s, SAM walker -> %s" % (cig, got, want)


@bounded("C16.cigar_exhaustive", ["C16"], note="get_read_blocks against an independent SAM walker on ALL CIGAR strings of length <= 4 "
         "(thorough: <= 6) over the operations {M,I,D,N,S,H,=,X} with lengths {1,2} (thorough: {1,2,3} up to length 5), plus "
         "seeded random long CIGARs; also checks exons are ordered and non-empty; the constructor of AlignmentInfo (the walk as the pipeline makes it) gives the same three lists; the second walk, concat_gapless_blocks + correct_bam_coords over the "
         "blocks pysam reports, gives the same exons on every CIGAR with clipping at the ends only")
def c16_exhaustive(tier, rng):
    import itertools, types
    com = native.repo_import("src/common.py")
    ai = native.repo_import("src/alignment_info.py")
    ops = [0, 1, 2, 3, 4, 5, 7, 8]
    lens = [1, 2]
    nmax = 4 if tier == "quick" else 6
    cases = 0
    for n in range(0, nmax + 1):
        for opseq in itertools.product(ops, repeat=n):
            lchoices = itertools.product(lens, repeat=n) if n <= 3 or tier != "quick" else [tuple(rng.choice(lens) for _ in range(n)) for _ in range(2)]
            if tier != "quick" and n >= 5:
                lchoices = [tuple(rng.choice([1, 2, 3]) for _ in range(n)) for _ in range(2)]
            for ls in lchoices:
                cig = list(zip(opseq, ls))
                cases += 1
                got = com.get_read_blocks(7, cig)
                want = sam_walker(7, cig)
                if tuple(got) != tuple(want):
                    return {"cases": cases, "bound": "length <= %d" % nmax, "violations": [{
                        "obligation": "C16.cigar_exhaustive", "inputs": {"ref_start": 7, "cigar": cig},
                        "observed": str(got), "required": str(want), "replay_call": "contracts.c_cigar:replay_cigar"}]}
                # the walk as the pipeline makes it: the constructor of AlignmentInfo on a record with this CIGAR
                if n == 0:
                    continue     # a record has at least one operation
                try:
                    ai_obj = ai.AlignmentInfo(types.SimpleNamespace(reference_start=7, cigartuples=list(cig)))
                    got_ai = (ai_obj.read_exons, ai_obj.read_blocks, ai_obj.cigar_blocks)
                except Exception as e:
                    got_ai = ("%s: %s" % (type(e).__name__, e),)
                if tuple(got_ai) != tuple(want):
                    return {"cases": cases, "bound": "length <= %d" % nmax, "violations": [{
                        "obligation": "C16.cigar_exhaustive.AlignmentInfo", "inputs": {"ref_start": 7, "cigar": cig},
                        "observed": str(got_ai), "required": str(want), "replay_call": "contracts.c_cigar:replay_alignment_info"}]}
                if _valid_clipping(cig):
                    got2 = _concat_walk(com, 7, cig)
                    if got2 != want[0]:
                        return {"cases": cases, "bound": "length <= %d" % nmax, "violations": [{
                            "obligation": "C16.cigar_exhaustive.concat_gapless_blocks", "inputs": {"ref_start": 7, "cigar": cig},
                            "observed": str(got2), "required": str(want[0]), "replay_call": "contracts.c_cigar:replay_concat"}]}
    for _ in range(300 if tier == "quick" else 20000):
        cig = [(rng.choice(ops), rng.randint(1, 300)) for _ in range(rng.randint(5, 40))]
        rs = rng.randint(0, 10 ** 6)
        cases += 1
        got = com.get_read_blocks(rs, cig)
        want = sam_walker(rs, cig)
        if tuple(got) != tuple(want):
            return {"cases": cases, "bound": "random long", "violations": [{
                "obligation": "C16.cigar_exhaustive", "inputs": {"ref_start": rs, "cigar": cig},
                "observed": str(got), "required": str(want), "replay_call": "contracts.c_cigar:replay_cigar"}]}
    return {"cases": cases, "bound": "all CIGARs of length <= %d over 8 operations, lengths {1,2}; plus random long" % nmax,
            "exhaustive": True, "violations": [], "samples": [{"cigar": [(4, 2), (0, 5), (3, 100), (0, 7)]}]}


# ---- polyA / polyT terminal-exon trimming (src/polya_verification.py, src/alignment_info.py) -------------------------------------
PV = "src/polya_verification.py:"
from contracts.c_common import WF  # noqa  (spec functions are registered by name; import keeps the dependency explicit)

record("PolyAParams", {"max_fake_terminal_exon_len": "int"})
record("PolyAFixer", {"params": "rec:PolyAParams"})
record("PolyAInfo", {"external_polya_pos": "int", "external_polyt_pos": "int", "internal_polya_pos": "int", "internal_polyt_pos": "int"})
record("AlignmentInfo", {"alignment": "any", "read_exons": IVS, "read_blocks": IVS, "cigar_blocks": IVS,
                         "polya_info": "opt[rec:PolyAInfo]", "exons_changed": "bool", "read_start": "int", "read_end": "int"})
record("PolyAFinder", {})
CLASS_HOME = {"PolyAFixer": "src/polya_verification.py", "AlignmentInfo": "src/alignment_info.py", "PolyAInfo": "src/polya_finder.py"}
native.RECORD_CLASSES["PolyAFixer"] = ("src/polya_verification.py", "PolyAFixer")
native.RECORD_CLASSES["PolyAInfo"] = ("src/polya_finder.py", "PolyAInfo")


def _params(argmap):
    p = argmap["self"].params
    if isinstance(p, dict):
        argmap["self"].params = type("P", (), {"max_fake_terminal_exon_len": p["max_fake_terminal_exon_len"]})()
    return argmap


def _gen_fixer(rng):
    return {"__rec__": "PolyAFixer", "params": {"__rec__": "PolyAParams", "max_fake_terminal_exon_len": rng.choice([0, 5, 20])}}


def _wf_list(rng, nmin=1):
    n = rng.randint(nmin, 5)
    p = rng.randint(1, 10)
    out = []
    for _ in range(n):
        a = p + rng.randint(1, 6); b = a + rng.randint(0, 12); out.append((a, b)); p = b
    return out


# An exon "consists of an aligned tail" when it lies beyond the tail position altogether, or when it is short (its genuine part at most
# max_fake_terminal_exon_len) and more than 2/3 of it is tail. Sorted exons make the exons with this property a suffix (polyA) / a prefix
# (polyT) of the list; the counters return the length of exactly that suffix / prefix - mirror images of each other.
_M = "self.params.max_fake_terminal_exon_len"
_condA = lambda j: ("(read_exons[%s][1] > internal_polya_pos and (internal_polya_pos - read_exons[%s][0] <= 0 or "
                    "(internal_polya_pos - read_exons[%s][0] <= %s and read_exons[%s][1] - internal_polya_pos > 2 * (internal_polya_pos - read_exons[%s][0]))))"
                    % (j, j, j, _M, j, j))
_condT = lambda j: ("(read_exons[%s][0] < internal_polyt_pos and (read_exons[%s][1] - internal_polyt_pos <= 0 or "
                    "(read_exons[%s][1] - internal_polyt_pos <= %s and internal_polyt_pos - read_exons[%s][0] > 2 * (read_exons[%s][1] - internal_polyt_pos))))"
                    % (j, j, j, _M, j, j))
_N = "len(read_exons)"
contract(PV + "PolyAFixer.count_polya_exons", {"self": "rec:PolyAFixer", "read_exons": IVS, "internal_polya_pos": "int"}, returns="int",
         props=["C16", "C11"], requires=["WF(read_exons)"],
         ensures=["0 <= result <= len(read_exons)", "internal_polya_pos != -1 or result == 0",
                  # every counted exon consists of tail ...
                  "internal_polya_pos == -1 or all(%s for j in range(%s - result, %s))" % (_condA("j"), _N, _N),
                  # ... and the exon in front of them does not
                  "internal_polya_pos == -1 or result == %s or not %s" % (_N, _condA("%s - result - 1" % _N))],
         loops={0: {"inv": ["0 <= polya_exon_count <= _k0",
                            "all(%s for j in range(%s - polya_exon_count, %s))" % (_condA("j"), _N, _N),
                            "polya_exon_count == _k0 or (polya_exon_count == _k0 - 1 and read_exons[%s - _k0][0] < internal_polya_pos and not %s)"
                            % (_N, _condA("%s - _k0" % _N))]}},
         native_args=_params,
         gen=lambda rng, n: ({"self": _gen_fixer(rng), "read_exons": _wf_list(rng), "internal_polya_pos": rng.choice([-1, rng.randint(1, 60)])} for _ in range(n)),
         canary="result == 0", timeout=30000)

contract(PV + "PolyAFixer.count_polyt_exons", {"self": "rec:PolyAFixer", "read_exons": IVS, "internal_polyt_pos": "int"}, returns="int",
         props=["C16", "C11"], requires=["WF(read_exons)"],
         ensures=["0 <= result <= len(read_exons)", "internal_polyt_pos != -1 or result == 0",
                  "internal_polyt_pos == -1 or all(%s for j in range(result))" % _condT("j"),
                  "internal_polyt_pos == -1 or result == %s or not %s" % (_N, _condT("result"))],
         loops={0: {"inv": ["0 <= polya_exon_count <= _k0",
                            "all(%s for j in range(polya_exon_count))" % _condT("j"),
                            "polya_exon_count == _k0 or (polya_exon_count == _k0 - 1 and read_exons[_k0 - 1][1] > internal_polyt_pos and not %s)"
                            % _condT("_k0 - 1")]}},
         native_args=_params,
         gen=lambda rng, n: ({"self": _gen_fixer(rng), "read_exons": _wf_list(rng), "internal_polyt_pos": rng.choice([-1, rng.randint(1, 60)])} for _ in range(n)),
         canary="result == 0", timeout=30000)

contract(PV + "PolyAFixer.correct_read_info", {"self": "rec:PolyAFixer", "read_exons": IVS, "polya_info": "rec:PolyAInfo"},
         returns="tuple[int,int]", props=["C16"], requires=["WF(read_exons)", "len(read_exons) >= 1"],
         # trimming the reported numbers of terminal exons (callers trim only positive counts) always leaves at least one exon
         ensures=["max(0, result[0]) + max(0, result[1]) < len(read_exons)", "result[0] <= len(read_exons) and result[1] <= len(read_exons)"],
         loops={0: {"inv": ["polya_exon_count <= len(read_exons) and polyt_exon_count <= len(read_exons)",
                            "polya_exon_count >= 0 or polyt_exon_count < len(read_exons)",
                            "polyt_exon_count >= 0 or polya_exon_count < len(read_exons)"]}},
         native_args=_params,
         gen=lambda rng, n: ({"self": _gen_fixer(rng), "read_exons": _wf_list(rng),
                              "polya_info": {"__rec__": "PolyAInfo", "external_polya_pos": -1, "external_polyt_pos": -1,
                                             "internal_polya_pos": rng.choice([-1, rng.randint(1, 60)]),
                                             "internal_polyt_pos": rng.choice([-1, rng.randint(1, 60)])}} for _ in range(n)),
         canary="result[0] + result[1] == 0")

# shift_polya / shift_polyt: contracts in c_polya.py (functional postconditions shared with C11's mirrored pair)

contract("pysamlike:PolyAFinder.detect_polya", {"self": "rec:PolyAFinder", "alignment": "any"}, returns="rec:PolyAInfo",
         trusted=True, params=["self", "alignment"], ensures=[], props=[], native=False,
         note="sequence scan on the pysam record: external to this proof, any PolyAInfo may come back")

@spec("list[tuple[int,int]], list[tuple[int,int]], int -> bool")
def run_at(new, orig, off):
    # `new` is the contiguous run of `orig` that starts at index off
    return 0 <= off and off + len(new) <= len(orig) and all(new[k] == orig[k + off] for k in range(len(new)))


class _StubFinder:
    def __init__(self, info):
        self.info = info

    def detect_polya(self, alignment):
        return self.info


def _gen_add_polya(rng, n):
    """real AlignmentInfo objects (fields set directly), the real PolyAFixer, a finder stub that returns a given PolyAInfo: tail positions
    before, inside and behind every exon so that any number of terminal exons - including all of them - is classified as polyA / polyT"""
    ai = native.repo_import("src/alignment_info.py")
    pf = native.repo_import("src/polya_finder.py")
    pv = native.repo_import("src/polya_verification.py")
    for _ in range(n):
        ex = _wf_list(rng)
        o = ai.AlignmentInfo.__new__(ai.AlignmentInfo)
        o.alignment = None
        o.read_exons = list(ex)
        o.read_blocks = [(10 * k, 10 * k + 5) for k in range(len(ex))]
        o.cigar_blocks = [(k, k) for k in range(len(ex))]
        o.exons_changed = False
        o.read_start, o.read_end = ex[0][0], ex[-1][1]
        o.polya_info = None
        pts = [-1, -1] + [e[j] + d for e in ex for j in (0, 1) for d in (-1, 0, 1)] + [ex[-1][1] + 5, max(1, ex[0][0] - 5)]
        info = pf.PolyAInfo(rng.choice(pts), rng.choice(pts), rng.choice(pts), rng.choice(pts))
        fixer = pv.PolyAFixer(type("P", (), {"max_fake_terminal_exon_len": rng.choice([0, 5, 20, 100])})())
        yield {"self": o, "polya_finder": _StubFinder(info), "polya_fixer": fixer}


contract("src/alignment_info.py:AlignmentInfo.add_polya_info",
         {"self": "rec:AlignmentInfo", "polya_finder": "rec:PolyAFinder", "polya_fixer": "rec:PolyAFixer"}, returns="none",
         props=["C16", "C14"], modifies=["self.polya_info", "self.read_exons", "self.read_blocks", "self.cigar_blocks", "self.exons_changed",
                                  "self.read_start", "self.read_end"],
         requires=["WF(self.read_exons)", "len(self.read_exons) >= 1", "len(self.read_blocks) == len(self.read_exons)",
                   "len(self.cigar_blocks) == len(self.read_exons)", "not self.exons_changed",
                   "self.read_start == self.read_exons[0][0] and self.read_end == self.read_exons[len(self.read_exons) - 1][1]"],
         ghost={"goff": "int"},
         ensures=[
             # never an empty exon list; what remains is a contiguous run of the original exons (hence still ordered),
             # the three parallel block lists are cut identically, and the read span follows the retained exons
             "len(self.read_exons) >= 1",
             "len(self.read_exons) <= len(old(self.read_exons))",
             "len(self.read_blocks) == len(self.read_exons) and len(self.cigar_blocks) == len(self.read_exons)",
             "any(run_at(self.read_exons, old(self.read_exons), off) and run_at(self.read_blocks, old(self.read_blocks), off) "
             "and run_at(self.cigar_blocks, old(self.cigar_blocks), off) for off in range(len(old(self.read_exons)) - len(self.read_exons) + 1))",
             "self.read_start == self.read_exons[0][0] and self.read_end == self.read_exons[len(self.read_exons) - 1][1]",
             "self.exons_changed == (len(self.read_exons) != len(old(self.read_exons)))"],
         # witness of the existential in E3 (the retained run starts after the trimmed polyT exons), proved as a step before it is used
         hints={"exit": ["0 <= max(0, polyt_exon_count) <= len(old(self.read_exons)) - len(self.read_exons)",
                         "run_at(self.read_exons, old(self.read_exons), max(0, polyt_exon_count))",
                         "run_at(self.read_blocks, old(self.read_blocks), max(0, polyt_exon_count))",
                         "run_at(self.cigar_blocks, old(self.cigar_blocks), max(0, polyt_exon_count))"]},
         gen=lambda rng, n: _gen_add_polya(rng, n))


# ---- hard clipping: H operations carry no bases of SEQ, so they must not change where a polyA tail / polyT head is found ----------------------
def _hard_clip_case(seed):
    """the alignments of C11.polya_mirror (A-rich end, tail inside and / or beyond the aligned part; and their mirror images with a polyT
    head), each compared with the same record spelled with an H operation at the tail side, at the far side and at both sides"""
    from contracts import c_equivariance as CE
    PF = native.repo_import("src/polya_finder.py").PolyAFinder
    a, m, L = CE._polya_mirror_pair(seed)
    f = PF()
    out = []
    for rec, fns in ((a, ("find_polya_external", "find_polya_internal")), (m, ("find_polyt_external", "find_polyt_internal"))):
        base = {fn: getattr(f, fn)(rec) for fn in fns}
        for name, cig in (("H at the end", list(rec.cigartuples) + [(5, 7)]), ("H at the start", [(5, 7)] + list(rec.cigartuples)),
                          ("H at both ends", [(5, 4)] + list(rec.cigartuples) + [(5, 9)])):
            r2 = rec._replace(cigartuples=cig)
            for fn in fns:
                got = getattr(f, fn)(r2)
                if got != base[fn]:
                    out.append("%s: %s gives %s for CIGAR %s and %s with %s" % (fn, fn, base[fn], rec.cigartuples, got, name))
    return out


def replay_hard_clip(d):
    p = _hard_clip_case(d["inputs"]["seed"])
    return (not p), "seed %s: %s" % (d["inputs"]["seed"], p[:3] or "hard clips change nothing")


@bounded("C16.hard_clip_invariance", ["C16"], note="PolyAFinder.find_polya_* / find_polyt_* (external and internal search, incl. the reference walk "
         "move_ref_coord_alogn_alignment) on alignments with A-rich ends: adding H operations (which carry no bases of SEQ) at either or both "
         "ends of the CIGAR changes no detected position")
def c16_hard_clip(tier, rng):
    n = 1500 if tier == "quick" else 40000
    base = rng.randrange(10 ** 9)
    for k in range(n):
        p = _hard_clip_case(base + k)
        if p:
            return {"cases": k + 1, "bound": "%d alignments" % n, "violations": [{
                "obligation": "C16.hard_clip_invariance", "inputs": {"seed": base + k}, "observed": p[:3],
                "required": "the same positions with and without H operations", "replay_call": "contracts.c_cigar:replay_hard_clip"}]}
    return {"cases": n, "bound": "%d random alignments x 3 spellings x 4 searches" % n, "violations": [], "samples": [{"seed": base}]}
