"""Contracts for src/id_policy.py (C17): id distributors and the exon-id table."""
from pyvc.api import contract, spec, lemma, record, bounded
from pyvc import native

P = "src/id_policy.py:"
CLASS_HOME = {"SimpleIDDistributor": "src/id_policy.py", "ExcludingIdDistributor": "src/id_policy.py",
              "FeatureIdStorage": "src/id_policy.py"}
KEY = "tuple[str,int,int,str]"

record("SimpleIDDistributor", {"value": "int"})
record("ExcludingIdDistributor", {"value": "int", "forbidden_ids": "set[int]"})
record("FeatureIdStorage", {"id_distributor": "rec:SimpleIDDistributor", "id_dict": "dict[%s,str]" % KEY,
                            "feature_name": "str", "used_ids": "set[str]"})
for _r in ("SimpleIDDistributor", "ExcludingIdDistributor", "FeatureIdStorage"):
    native.RECORD_CLASSES[_r] = ("src/id_policy.py", _r)

contract(P + "SimpleIDDistributor.increment", {"self": "rec:SimpleIDDistributor"}, returns="int", props=["C17"],
         modifies=["self.value"],
         ensures=["result == old(self.value) + 1", "self.value == result"], canary="result == old(self.value)")

contract(P + "ExcludingIdDistributor.increment", {"self": "rec:ExcludingIdDistributor"}, returns="int", props=["C17", "C04"],
         modifies=["self.value"],
         # the next free number: strictly larger than the last one handed out, not forbidden, and nothing free was skipped
         ensures=["result == self.value", "result > old(self.value)", "result not in self.forbidden_ids",
                  "all(v in self.forbidden_ids for v in range(old(self.value) + 1, result))"],
         loops={0: {"inv": ["self.value > old(self.value)",
                            "all(v in self.forbidden_ids for v in range(old(self.value) + 1, self.value))"]}},
         canary="result == old(self.value) + 1",
         gen=lambda rng, n: ({"self": {"__rec__": "ExcludingIdDistributor", "value": rng.randint(0, 5),
                                       "forbidden_ids": set(rng.sample(range(12), rng.randint(0, 6)))}} for _ in range(n)))


@spec("dict[tuple[str,int,int,str],str], set[str] -> bool")
def table_ok(d, used):
    # representation invariant of the exon-id table: ids are pairwise distinct and all recorded as used
    return all(d[k] in used for k in d) and all(d[k1] != d[k2] for k1 in d for k2 in d if k1 != k2)


contract(P + "FeatureIdStorage.get_id",
         {"self": "rec:FeatureIdStorage", "chr_id": "str", "feature": "tuple[int,int]", "strand": "str"},
         returns="str", props=["C17"], modifies=["self.id_dict", "self.id_distributor.value", "self.used_ids"],
         requires=["table_ok(self.id_dict, self.used_ids)"],
         ensures=[
             # functional: the id is the table entry of (chromosome, start, end, strand), now and on every later call
             "(chr_id, feature[0], feature[1], strand) in self.id_dict",
             "result == self.id_dict[(chr_id, feature[0], feature[1], strand)]",
             # ids already handed out (or loaded from the reference) never change
             "all(k in self.id_dict and self.id_dict[k] == old(self.id_dict)[k] for k in old(self.id_dict))",
             # only the queried key can be new
             "all(k in old(self.id_dict) or k == (chr_id, feature[0], feature[1], strand) for k in self.id_dict)",
             # injective: distinct exons carry distinct ids
             "table_ok(self.id_dict, self.used_ids)",
             "(chr_id, feature[0], feature[1], strand) not in old(self.id_dict) or self.id_distributor.value == old(self.id_distributor.value)"],
         loops={0: {"inv": ["self.id_dict == old(self.id_dict)", "self.used_ids == old(self.used_ids)"]}},
         gen=lambda rng, n: (_gen_storage(rng) for _ in range(n)),
         canary="result == chr_id")


def _gen_storage(rng):
    chrs = ["chr1", "chr2"]
    d = {}
    used = set()
    for _ in range(rng.randint(0, 3)):
        k = (rng.choice(chrs), rng.randint(1, 4), rng.randint(5, 8), rng.choice("+-"))
        v = rng.choice(["chr1.%d" % rng.randint(1, 3), "chr2.%d" % rng.randint(1, 3), "ENSE%d" % rng.randint(1, 3)])
        if k not in d and v not in used:
            d[k] = v
            used.add(v)
    return {"self": {"__rec__": "FeatureIdStorage", "id_distributor": {"__rec__": "SimpleIDDistributor", "value": rng.randint(0, 2)},
                     "id_dict": d, "feature_name": "exon", "used_ids": used},
            "chr_id": rng.choice(chrs), "feature": (rng.randint(1, 4), rng.randint(5, 8)), "strand": rng.choice("+-")}


# ---- ExcludingIdDistributor.__init__ parses reference ids through gffutils: outside the subset, bounded natively ----------
class _Feat:
    def __init__(self, id, ft):
        self.id = id
        self.featuretype = ft


class _StubDB:
    """exposes exactly what ExcludingIdDistributor.__init__ uses: region(seqid=, start=, featuretype=)"""
    def __init__(self, feats):
        self.feats = feats

    def region(self, seqid=None, start=None, featuretype=None):
        fts = featuretype if isinstance(featuretype, tuple) else (featuretype,)
        return [f for f in self.feats if f.featuretype in fts]


@bounded("C17.reference_id_parsing", ["C17"], shards=4, note="ids formatted exactly as the model constructor formats them "
         "(transcript<n>.<chr>.nic/.nnic, novel_gene_<chr>_<n>), for chromosome names with dots/underscores/digits, are fed "
         "back as a reference through a stub gene database: every such n must end up forbidden, and increment() must never "
         "return one of them; bound: n in 0..60, 8 chromosome-name shapes, plus foreign ids")
def c17_refparse(tier, rng):
    idp = native.repo_import("src/id_policy.py")
    com = native.repo_import("src/common.py")
    TN = com.TranscriptNaming
    chrs = ["chr1", "1", "chr_1", "GL000194.1", "chrUn_KI270742v1", "scaffold.12_3", "X", "chr1_random.2"]
    cases = 0
    viol = []
    for chr_id in chrs:
        for trial in range(6 if tier == "quick" else 60):
            ns_t = set(rng.sample(range(0, 61), rng.randint(0, 8)))
            ns_g = set(rng.sample(range(0, 61), rng.randint(0, 8)))
            # always: only transcript ids of IsoQuant's shape (all in known genes), only novel genes, and the smallest numbers taken
            if trial == 0:
                ns_g = set()
                ns_t = ns_t | {1, 2}
            elif trial == 1:
                ns_t = set()
                ns_g = ns_g | {1}
            elif trial == 2:
                ns_t, ns_g = {1, 2, 3, 5}, set()
            feats = [_Feat(TN.transcript_prefix + str(n) + "." + chr_id + rng.choice([TN.nic_transcript_suffix, TN.nnic_transcript_suffix]), "transcript") for n in ns_t]
            feats += [_Feat(TN.novel_gene_prefix + chr_id + "_" + str(n), "gene") for n in ns_g]
            feats += [_Feat("ENST0000%d.2" % k, "transcript") for k in range(2)] + [_Feat("ENSG000001.5", "gene"),
                                                                                      _Feat("transcript_like_name", "transcript"),
                                                                                      _Feat("novel_gene_without_number_x", "gene")]
            rng.shuffle(feats)
            d = idp.ExcludingIdDistributor(_StubDB(feats), chr_id)
            cases += 1
            missing = (ns_t | ns_g) - d.forbidden_ids
            got = [d.increment() for _ in range(20)]
            bad = [g for g in got if g in ns_t | ns_g]
            if missing or bad or len(set(got)) != len(got):
                viol.append({"obligation": "C17.reference_id_parsing", "inputs": {"chr": chr_id, "ids": [f.id for f in feats]},
                             "observed": "numbers not excluded: %s; handed out although taken: %s" % (sorted(missing), bad),
                             "required": "every number used in a reference id of IsoQuant's own shape is excluded"})
                return {"cases": cases, "bound": "n<=60", "violations": viol}
    return {"cases": cases, "bound": "n in 0..60, 8 chromosome shapes", "violations": viol, "samples": [{"chr": chrs[3]}]}


# ---- which models are added to the reference transcripts in the extended annotation ------------------------------------------------------------
import ast as _ast
import copy as _copy
from pyvc import front as _front
from pyvc.api import enum_from_repo as _enum_from_repo
_enum_from_repo("src/gene_info.py", "TranscriptModelType")


def _novel_storage_extract(fdef):
    """construct_models_in_parallel: the loop that copies models of one locus into novel_model_storage (the list later appended to ALL
    reference transcripts by create_extended_storage), as a function of the locus' model storage; everything around it is dropped"""
    loop = None
    for n in _ast.walk(fdef):
        if isinstance(n, _ast.For) and _ast.unparse(n.iter) == "model_constructor.transcript_model_storage" and \
                any(isinstance(c, _ast.Call) and _ast.unparse(c.func) == "novel_model_storage.append" for c in _ast.walk(n)):
            loop = n
    if loop is None:
        raise _front.Missing("loop filling novel_model_storage not found in construct_models_in_parallel")
    args = _ast.arguments(posonlyargs=[], args=[_ast.arg(arg=a) for a in ("model_constructor", "novel_model_storage")],
                          kwonlyargs=[], kw_defaults=[], defaults=[])
    body = [_copy.deepcopy(loop), _ast.Return(value=_ast.Name(id="novel_model_storage", ctx=_ast.Load()))]
    return _ast.fix_missing_locations(_ast.FunctionDef(name="construct_models_in_parallel", args=args, body=body, decorator_list=[],
                                                       lineno=loop.lineno, col_offset=0))


record("ModelX", {"transcript_id": "str", "gene_id": "str", "source": "str", "transcript_type": "enum:TranscriptModelType"})
record("ModelConstructorX", {"transcript_model_storage": "list[rec:ModelX]"})
contract("src/dataset_processor.py:construct_models_in_parallel#novel_storage",
         {"model_constructor": "rec:ModelConstructorX", "novel_model_storage": "list[rec:ModelX]"}, returns="list[rec:ModelX]",
         props=["C17", "C03"], extract=_novel_storage_extract, native=False, modifies=["novel_model_storage"],
         # the extended annotation = all reference transcripts + this list: a reference (known) model must never be in it, whatever its
         # source column says (an annotation produced by IsoQuant itself has source IsoQuant), and every other model must be
         ensures=["all(result[j].transcript_type != TranscriptModelType.known for j in range(len(old(novel_model_storage)), len(result)))",
                  "result[:len(old(novel_model_storage))] == old(novel_model_storage)",
                  "all(model_constructor.transcript_model_storage[k].transcript_type == TranscriptModelType.known or "
                  "any(result[j] == model_constructor.transcript_model_storage[k] for j in range(len(old(novel_model_storage)), len(result))) "
                  "for k in range(len(model_constructor.transcript_model_storage)))"],
         loops={0: {"inv": ["len(novel_model_storage) >= len(old(novel_model_storage))",
                            "novel_model_storage[:len(old(novel_model_storage))] == old(novel_model_storage)",
                            "all(novel_model_storage[j].transcript_type != TranscriptModelType.known for j in range(len(old(novel_model_storage)), len(novel_model_storage)))",
                            "all(model_constructor.transcript_model_storage[k].transcript_type == TranscriptModelType.known or "
                            "any(novel_model_storage[j] == model_constructor.transcript_model_storage[k] for j in range(len(old(novel_model_storage)), len(novel_model_storage))) "
                            "for k in range(_k0))"]}},
         canary="len(result) == len(old(novel_model_storage))")


# ---- id strings: the numbers restart on every chromosome, so the chromosome has to be part of every generated id ---------------------------
from pyvc.api import finite as _finite


@_finite("C17.id_shapes", ["C17", "C04"], note="every place in src/ that builds a novel gene id (TranscriptNaming.novel_gene_prefix + ...) or passes a "
         "generated transcript id to TranscriptModel: the string must contain the chromosome id and a number drawn from the per-chromosome "
         "distributor (get_transcript_id); read from the AST")
def c17_id_shapes(tier, rng):
    import ast, glob, os
    obl = dis = 0
    viol = []
    sites = 0
    for path in sorted(glob.glob(os.path.join(_front.REPO, "src", "*.py"))):
        rel = os.path.relpath(path, _front.REPO)
        tree = ast.parse(open(path).read())
        parents = {}
        for n in ast.walk(tree):
            for ch in ast.iter_child_nodes(n):
                parents[ch] = n
        for n in ast.walk(tree):
            if isinstance(n, ast.Attribute) and n.attr == "novel_gene_prefix" and isinstance(parents.get(n), ast.BinOp):
                top = n
                while isinstance(parents.get(top), ast.BinOp):
                    top = parents[top]
                text = ast.unparse(top)
                sites += 1
                obl += 1
                ok = "chr_id" in text and "get_transcript_id()" in text
                if ok:
                    dis += 1
                else:
                    viol.append({"obligation": "C17.id_shapes.gene.%s.%d" % (rel.replace("/", "_"), n.lineno), "inputs": None,
                                 "observed": "%s:%d builds a novel gene id as %s" % (rel, n.lineno, text),
                                 "required": "novel_gene_prefix + <chromosome id> + '_' + str(<number from the per-chromosome distributor>)"})
            if isinstance(n, ast.Call) and isinstance(n.func, ast.Name) and n.func.id == "TranscriptModel" and len(n.args) >= 3:
                text = ast.unparse(n.args[2])
                if "new_transcript_id" in text:
                    sites += 1
                    obl += 1
                    if "chr_id" in text:
                        dis += 1
                    else:
                        viol.append({"obligation": "C17.id_shapes.transcript.%s.%d" % (rel.replace("/", "_"), n.lineno), "inputs": None,
                                     "observed": "%s:%d names a novel transcript %s" % (rel, n.lineno, text),
                                     "required": "generated transcript ids carry the chromosome id"})
    if sites == 0:
        viol.append({"obligation": "C17.id_shapes.nontrivial", "inputs": None, "observed": "no id construction site found", "required": "inventory applies", "undecided": True})
    return {"obligations": obl, "discharged": dis, "violations": viol, "cases": obl, "exhaustive": True, "bound": "all %d construction sites in src/" % sites,
            "samples": [{"site": "construct_fl_isoforms"}]}


# ---- ids across the read islands of one gene (pipeline run): every transcript id once per output file -----------------------------------------
def _island_ids_problems():
    import gzip, os, shutil
    from contracts import c_novel, c_profiles
    d, p = c_novel._run_pipeline([], True, c_profiles._islands_inputs)
    problems, n = [], 0
    try:
        if p.returncode != 0:
            return ["isoquant exited %d: %s" % (p.returncode, p.stderr[-300:])], 0
        out = os.path.join(d, "out", "S")
        for fn in ("S.transcript_models.gtf", "S.extended_annotation.gtf"):
            seen = {}
            for line in open(os.path.join(out, fn)):
                if line.startswith("#"):
                    continue
                f = line.rstrip("\n").split("\t")
                if f[2] in ("transcript", "gene"):
                    key = (f[2], [kv.strip().split(" ", 1)[1].strip('"') for kv in f[8].split(";") if kv.strip().startswith(f[2] + "_id")][0])
                    seen[key] = seen.get(key, 0) + 1
                    n += 1
            for key, c in sorted(seen.items()):
                if c != 1:
                    problems.append("%s: %s %s has %d records" % (fn, key[0], key[1], c))
        for fn in ("S.transcript_model_counts.tsv", "S.transcript_counts.tsv"):
            ids = [l.split("\t")[0] for l in open(os.path.join(out, fn)) if not l.startswith("#") and not l.startswith("__")]
            if len(ids) != len(set(ids)):
                problems.append("%s lists an id twice: %s" % (fn, sorted(i for i in set(ids) if ids.count(i) > 1)))
    finally:
        shutil.rmtree(d, ignore_errors=True)
    return problems, n


def replay_island_ids(d):
    p, n = _island_ids_problems()
    return (not p), "islands run: %s" % (p[:4] or "%d gene / transcript records, every id once" % n)


@bounded("C17.island_ids", ["C17", "C03"], note="one pipeline run (model construction on) on a synthetic gene whose reads form two islands that do not "
         "overlap, both assigned to the same reference isoform: every gene and transcript id has exactly one record in transcript_models.gtf "
         "and extended_annotation.gtf and one row in the count tables")
def c17_island_ids(tier, rng):
    p, n = _island_ids_problems()
    viol = [{"obligation": "C17.island_ids", "inputs": {"scenario": "two read islands of one gene"}, "observed": p[:4],
             "required": "ids unique within each output file", "replay_call": "contracts.c_id_policy:replay_island_ids"}] if p else []
    if not p and n == 0:
        viol = [{"obligation": "C17.island_ids.nontrivial", "inputs": None, "observed": "no records", "required": "some records", "undecided": True}]
    return {"cases": 1, "bound": "1 pipeline run, 5 reads in 2 islands (%d gene / transcript records)" % n, "violations": viol, "samples": [{"records": n}]}


# ---- exon ids on a second run: the ids of the reference are kept, new exons never reuse one of them -----------------------------------------------
def _exon_ids_case(seed):
    import random, types
    rng = random.Random(seed)
    idp = native.repo_import("src/id_policy.py")
    chr_id = rng.choice(["chr1", "1", "scaffold.2"])
    # reference exons as an extended annotation of an earlier run has them: ids <chr>.<n> made by IsoQuant sit on lines of any source
    # (known transcripts keep the source of the original annotation), next to foreign ids and exons without an id
    ref, used_n = [], rng.sample(range(1, 12), rng.randint(0, 6))
    for k, n in enumerate(used_n):
        a = 100 * (k + 1)
        ref.append(types.SimpleNamespace(start=a, end=a + 50, strand=rng.choice("+-"), source=rng.choice(["IsoQuant", "HAVANA", "ENSEMBL", "demo"]),
                                         featuretype="exon", attributes={"exon_id": ["%s.%d" % (chr_id, n)]}))
    for k in range(rng.randint(0, 3)):
        a = 5000 + 100 * k
        ref.append(types.SimpleNamespace(start=a, end=a + 40, strand="+", source="ENSEMBL", featuretype="exon",
                                         attributes=rng.choice([{"exon_id": ["ENSE%05d" % k]}, {}])))
    db = types.SimpleNamespace(region=lambda seqid=None, start=None, featuretype=None: list(ref))
    st = idp.FeatureIdStorage(idp.SimpleIDDistributor(), db, chr_id, "exon")
    problems = []
    got = {}
    asks = [(f.start, f.end, f.strand) for f in ref if rng.random() < .7] + [(9000 + 60 * k, 9000 + 60 * k + 30, rng.choice("+-")) for k in range(rng.randint(1, 8))]
    rng.shuffle(asks)
    asks += asks[:2]
    for a, b, s_ in asks:
        i = st.get_id(chr_id, (a, b), s_)
        key = (a, b, s_)
        if key in got and got[key] != i:
            problems.append("exon %s got two ids: %s and %s" % (key, got[key], i))
        got[key] = i
    ref_ids = {(f.start, f.end, f.strand): f.attributes["exon_id"][0] for f in ref if f.attributes.get("exon_id")}
    for key, i in got.items():
        if key in ref_ids and ref_ids[key] != i:
            problems.append("reference exon %s has id %s in the reference and %s now" % (key, ref_ids[key], i))
    inv = {}
    for key, i in list(got.items()) + [(k, v) for k, v in ref_ids.items() if k not in got]:
        if inv.setdefault(i, key) != key:
            problems.append("exon id %s names two exons: %s and %s" % (i, inv[i], key))
    return problems


def replay_exon_ids(d):
    p = _exon_ids_case(d["inputs"]["seed"])
    return (not p), "seed %s: %s" % (d["inputs"]["seed"], p[:3] or "ids functional, reference ids kept, no id shared by two exons")


@bounded("C17.exon_ids_second_run", ["C17"], note="the real FeatureIdStorage filled from a stub reference in which IsoQuant-made ids <chr>.<n> sit on exon lines "
         "of any source (as in an extended annotation), next to foreign ids and exons without ids; then ids are requested for reference and "
         "new exons: an exon always gets the same id, a reference exon keeps the reference's id, no id names two different exons")
def c17_exon_ids(tier, rng):
    n = 400 if tier == "quick" else 20000
    base = rng.randrange(10 ** 9)
    for k in range(n):
        try:
            p = _exon_ids_case(base + k)
        except Exception as e:
            p = ["exception %s: %s" % (type(e).__name__, e)]
        if p:
            return {"cases": k + 1, "bound": "%d reference / request sets" % n, "violations": [{
                "obligation": "C17.exon_ids_second_run", "inputs": {"seed": base + k}, "observed": p[:3], "required": "exon ids functional, preserved, injective",
                "replay_call": "contracts.c_id_policy:replay_exon_ids"}]}
    return {"cases": n, "bound": "%d random reference / request sets" % n, "violations": [], "samples": [{"seed": base}]}


# ---- the extended annotation of a reference sequence: every transcript once, whether or not the sequence has annotated genes -------------------------
@_finite("C17.extended_storage_once", ["C17", "C03"], note="the real create_extended_storage over a real (in-memory gffutils) annotation with genes on chrA and none "
        "on ctgB, for 0-3 novel models per sequence: the models handed to the printer of extended_annotation.gtf are the reference transcripts of "
        "the sequence and the novel models, every transcript id exactly once")
def c17_extended_storage_once(tier, rng):
    import gffutils
    tp = native.repo_import("src/transcript_printer.py")
    gi_mod = native.repo_import("src/gene_info.py")
    gtf = []
    for g, t, ex in (("G1", "T1", [(1001, 1200), (1501, 1700), (2501, 2800)]), ("G1", "T2", [(1001, 1200), (2501, 2800)]), ("G2", "T3", [(5001, 5400)])):
        if not any('gene_id "%s"' % g in l and "\tgene\t" in l for l in gtf):
            gtf.append('chrA\tsyn\tgene\t%d\t%d\t.\t+\t.\tgene_id "%s";' % (1001 if g == "G1" else 5001, 2800 if g == "G1" else 5400, g))
        gtf.append('chrA\tsyn\ttranscript\t%d\t%d\t.\t+\t.\tgene_id "%s"; transcript_id "%s";' % (ex[0][0], ex[-1][1], g, t))
        for a, b in ex:
            gtf.append('chrA\tsyn\texon\t%d\t%d\t.\t+\t.\tgene_id "%s"; transcript_id "%s";' % (a, b, g, t))
    db = gffutils.create_db("\n".join(gtf) + "\n", ":memory:", from_string=True, merge_strategy="error", disable_infer_genes=True,
                            disable_infer_transcripts=True, keep_order=True)
    seq = "A" * 9000
    obl = dis = 0
    viol = []
    for chr_id, refs in (("chrA", ["T1", "T2", "T3"]), ("ctgB", [])):
        for n in range(4):
            obl += 1
            novel = [gi_mod.TranscriptModel(chr_id, "+", "transcript%d.%s.nnic" % (k + 1, chr_id), "novel_gene_%s_%d" % (chr_id, k),
                                            [(100 + 1000 * k, 300 + 1000 * k), (500 + 1000 * k, 700 + 1000 * k)], gi_mod.TranscriptModelType.novel_not_in_catalog)
                     for k in range(n)]
            try:
                models, _gene_info = tp.create_extended_storage(db, chr_id, seq, list(novel))
                got = sorted(m.transcript_id for m in models)
            except Exception as e:
                got = "%s: %s" % (type(e).__name__, e)
            want = sorted(refs + [m.transcript_id for m in novel])
            if got == want:
                dis += 1
            else:
                viol.append({"obligation": "C17.extended_storage_once.%s.%d_novel" % (chr_id, n), "inputs": {"sequence": chr_id, "novel_models": n},
                             "observed": got, "required": want})
    return {"obligations": obl, "discharged": dis, "violations": viol[:4], "cases": obl, "exhaustive": True,
            "bound": "2 sequences (with / without annotated genes) x 0-3 novel models", "samples": [{"sequence": "ctgB", "novel_models": 2}]}
