#!/usr/bin/env python
# Side observation at baseline (independent of the seeded change):
# strand and gene list of an exon / intron row depend on the piece of a split region the read was processed in.
#
# Gene GA (+) spans 1000-60200, gene GB (-) spans 49000-61000 and shares the exons 50000-50200 and 60000-60200
# (and the intron between them) with GA. Two reads chain into one alignment region longer than 32768 bases, which
# AlignmentCollector splits into two pieces. The long read overlaps both pieces and is processed in both; the copy
# of the first piece wins the duplicate resolution, and the GeneInfo of that piece contains GA only. The rows of
# the shared features are therefore printed with strand "+" and gene list "GA" although the annotation says
# strands "+-" and genes GA,GB.
#
# usage: cd /tmp/seedo_C13 && /venv/bin/python _seed/side_observation.py     exit 1 = observation reproduced

import os
import shutil
import subprocess
import sys
import tempfile
from collections import defaultdict

sys.dont_write_bytecode = True
sys.path.insert(0, os.path.dirname(os.path.abspath(__file__)))
import demo_base as demo  # builders of the reference / GTF / BAM, the inputs are replaced below

demo.CHR_LEN = 70000
demo.ANNOTATION = {
    "GA": ("+", {"GA.t1": [(1000, 1200), (20000, 20200), (50000, 50200), (60000, 60200)]}),
    "GB": ("-", {"GB.t1": [(50000, 50200), (60000, 60200), (60800, 61000)]}),
}
demo.ALIGNMENTS = [
    ("readX", 0, [(1000, 1200), (20000, 20200)]),
    ("readY", 0, [(20000, 20200), (50000, 50200), (60000, 60200)]),
]


def main():
    tmp_dir = tempfile.mkdtemp(prefix="seed_c13_side_")
    try:
        ref_path = os.path.join(tmp_dir, "ref.fa")
        gtf_path = os.path.join(tmp_dir, "genes.gtf")
        bam_path = os.path.join(tmp_dir, "reads.bam")
        out_dir = os.path.join(tmp_dir, "out")
        home_dir = os.path.join(tmp_dir, "home")
        os.makedirs(home_dir)
        ref_seq = demo.make_reference(ref_path)
        demo.make_gtf(gtf_path)
        demo.make_bam(bam_path, ref_seq)
        env = dict(os.environ)
        env["HOME"] = home_dir
        cmd = [sys.executable, os.path.join(demo.ROOT, "isoquant.py"), "--bam", bam_path, "--genedb", gtf_path,
               "--complete_genedb", "-r", ref_path, "--data_type", "nanopore", "-o", out_dir, "--prefix", "demo",
               "--count_exons", "--no_model_construction", "-t", "1"]
        res = subprocess.run(cmd, env=env, cwd=tmp_dir, capture_output=True, text=True)
        if res.returncode != 0:
            print(res.stdout[-3000:])
            print(res.stderr[-3000:])
            print("isoquant.py exited with %d" % res.returncode)
            return 2

        sample_dir = os.path.join(out_dir, "demo")
        annotated = {"exon": defaultdict(lambda: (set(), set())), "intron": defaultdict(lambda: (set(), set()))}
        for gene_id, (strand, transcripts) in demo.ANNOTATION.items():
            for exons in transcripts.values():
                for e in exons:
                    annotated["exon"][e][0].add(strand)
                    annotated["exon"][e][1].add(gene_id)
                for i in demo.introns_of(exons):
                    annotated["intron"][i][0].add(strand)
                    annotated["intron"][i][1].add(gene_id)

        problems = []
        for kind in ("exon", "intron"):
            path = os.path.join(sample_dir, "demo.%s_counts.tsv" % kind)
            seen = defaultdict(list)
            with open(path) as f:
                for line in f:
                    if line.startswith("#"):
                        continue
                    fs = line.rstrip("\n").split("\t")
                    feature = (int(fs[1]), int(fs[2]))
                    seen[feature].append(line.rstrip("\n"))
                    strands, genes = annotated[kind][feature]
                    if fs[3] != "".join(sorted(strands)) or set(fs[5].split(",")) != genes:
                        problems.append("%s %d-%d: row has strand '%s' genes '%s', annotation has strand '%s' genes '%s'" %
                                        (kind, feature[0], feature[1], fs[3], fs[5], "".join(sorted(strands)),
                                         ",".join(sorted(genes))))
            for feature, rows in seen.items():
                if len(rows) > 1:
                    problems.append("%s %d-%d has %d rows" % (kind, feature[0], feature[1], len(rows)))
        if problems:
            print("FAIL:")
            for p in problems:
                print("  " + p)
            return 1
        print("PASS: strand and gene list of every row match the annotation")
        return 0
    finally:
        shutil.rmtree(tmp_dir, ignore_errors=True)


if __name__ == "__main__":
    sys.exit(main())
