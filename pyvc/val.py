"""Symbolic values: a structured Python-level representation over z3 terms, with pack/unpack to one term."""
import itertools
import z3
from .ty import *

_fresh = itertools.count()


class Unsupported(Exception):
    pass


def fresh_name(base):
    return "%s!%d" % (base, next(_fresh))


class Val:
    pass


class VInt(Val):
    ty = INT

    def __init__(self, t):
        self.t = z3.IntVal(t) if isinstance(t, int) else t


class VReal(Val):
    ty = REAL

    def __init__(self, t):
        self.t = z3.RealVal(t) if isinstance(t, (int, float)) else t


class VBool(Val):
    ty = BOOL

    def __init__(self, t):
        self.t = z3.BoolVal(t) if isinstance(t, bool) else t


class VStr(Val):
    ty = STR

    def __init__(self, t):
        self.t = z3.StringVal(t) if isinstance(t, str) else t


class VNone(Val):
    ty = NONE


class VAny(Val):
    ty = ANY

    def __init__(self, t):
        self.t = t


class VTuple(Val):
    def __init__(self, items):
        self.items = list(items)
        self.ty = TTuple([i.ty for i in self.items])


class VList(Val):
    def __init__(self, ety, n, a):
        self.ety = ety
        self.ty = TList(ety)
        self.n = z3.IntVal(n) if isinstance(n, int) else n
        self.a = a

    def get(self, i):
        return unpack(self.ety, z3.Select(self.a, i))


class VOpt(Val):
    def __init__(self, ity, isnone, v):
        self.ity = ity
        self.ty = TOpt(ity)
        self.isnone = isnone
        self.v = v  # Val of ity (meaningful when not isnone)


class VSet(Val):
    def __init__(self, kty, m, c):
        self.kty = kty
        self.ty = TSet(kty)
        self.m = m
        self.c = c  # cardinality (ghost)


class VDict(Val):
    def __init__(self, ty, m, a, c):
        self.ty = ty
        self.kty = ty.key
        self.vty = ty.val
        self.m = m
        self.a = a
        self.c = c


class VEnum(Val):
    def __init__(self, ty, t):
        self.ty = ty
        self.t = t


class VRec(Val):
    def __init__(self, ty, f):
        self.ty = ty
        self.f = dict(f)


class VFunc(Val):
    """A Python-level callable (lambda, bound contract, functools.partial); not storable."""
    ty = ANY

    def __init__(self, fn, desc="<fn>"):
        self.fn = fn
        self.desc = desc


# ---------------------------------------------------------------------------------------------

def pack(v):
    """Val -> single z3 term of sort_of(v.ty)"""
    if isinstance(v, (VInt, VReal, VBool, VStr, VEnum, VAny)):
        return v.t
    if isinstance(v, VNone):
        return sort_info(NONE).none
    if isinstance(v, VTuple):
        return sort_info(v.ty).mk(*[pack(i) for i in v.items])
    if isinstance(v, VList):
        return sort_info(v.ty).mk(v.n, v.a)
    if isinstance(v, VOpt):
        si = sort_info(v.ty)
        return z3.If(v.isnone, si.none, si.some(pack(v.v)))
    if isinstance(v, VSet):
        return sort_info(v.ty).mk(v.m, v.c)
    if isinstance(v, VDict):
        return sort_info(v.ty).mk(v.m, v.a, v.c)
    if isinstance(v, VRec):
        si = sort_info(v.ty)
        return si.mk(*[pack(v.f[n]) for n in si.names])
    raise Unsupported("cannot pack %r" % type(v).__name__)


def unpack(ty, t):
    t = z3.simplify(t) if False else t
    if ty == INT:
        return VInt(t)
    if ty == REAL:
        return VReal(t)
    if ty == BOOL:
        return VBool(t)
    if ty == STR:
        return VStr(t)
    if ty == NONE:
        return VNone()
    if ty == ANY:
        return VAny(t)
    if isinstance(ty, TEnum):
        return VEnum(ty, t)
    si = sort_info(ty)
    if isinstance(ty, TTuple):
        return VTuple([unpack(it, _acc(si.acc[i], t, si.mk, i)) for i, it in enumerate(ty.items)])
    if isinstance(ty, TList):
        return VList(ty.elem, _acc(si.n, t, si.mk, 0), _acc(si.a, t, si.mk, 1))
    if isinstance(ty, TOpt):
        return VOpt(ty.inner, si.is_none(t), unpack(ty.inner, si.v(t)))
    if isinstance(ty, TSet):
        return VSet(ty.key, _acc(si.m, t, si.mk, 0), _acc(si.c, t, si.mk, 1))
    if isinstance(ty, TDict):
        return VDict(ty, _acc(si.m, t, si.mk, 0), _acc(si.a, t, si.mk, 1), _acc(si.c, t, si.mk, 2))
    if isinstance(ty, TRec):
        return VRec(ty, {n: unpack(ty.fields[n], _acc(si.acc[n], t, si.mk, k)) for k, n in enumerate(si.names)})
    raise Unsupported("cannot unpack " + repr(ty))


def _acc(acc, t, mk, k):
    # syntactic shortcut: acc(mk(a,b,..)) -> component
    if z3.is_app(t) and t.decl().eq(mk):
        return t.arg(k)
    return acc(t)


def fresh(ty, base="v"):
    """Fresh symbolic value, structured: one constant per leaf (cleaner terms and triggers than one datatype constant)."""
    if isinstance(ty, TTuple):
        return VTuple([fresh(t, "%s.%d" % (base, k)) for k, t in enumerate(ty.items)])
    if isinstance(ty, TList):
        return VList(ty.elem, z3.Int(fresh_name(base + ".n")), z3.Const(fresh_name(base + ".a"), z3.ArraySort(z3.IntSort(), sort_of(ty.elem))))
    if isinstance(ty, TOpt):
        return VOpt(ty.inner, z3.Bool(fresh_name(base + ".isnone")), fresh(ty.inner, base + ".v"))
    if isinstance(ty, TRec):
        return VRec(ty, {n: fresh(t, "%s.%s" % (base, n)) for n, t in ty.fields.items()})
    if isinstance(ty, TSet):
        return VSet(ty.key, z3.Const(fresh_name(base + ".m"), z3.ArraySort(sort_of(ty.key), z3.BoolSort())), z3.Int(fresh_name(base + ".c")))
    if isinstance(ty, TDict):
        return VDict(ty, z3.Const(fresh_name(base + ".m"), z3.ArraySort(sort_of(ty.key), z3.BoolSort())),
                     z3.Const(fresh_name(base + ".a"), z3.ArraySort(sort_of(ty.key), sort_of(ty.val))), z3.Int(fresh_name(base + ".c")))
    return unpack(ty, z3.Const(fresh_name(base), sort_of(ty)))


def flat_sorts(ty):
    if isinstance(ty, TTuple):
        return [s for t in ty.items for s in flat_sorts(t)]
    if isinstance(ty, TList):
        return [z3.IntSort(), z3.ArraySort(z3.IntSort(), sort_of(ty.elem))]
    if isinstance(ty, TRec):
        return [s for n in sorted(ty.fields) for s in flat_sorts(ty.fields[n])]
    return [sort_of(ty)]


def flatten(v):
    if isinstance(v, VTuple):
        return [t for i in v.items for t in flatten(i)]
    if isinstance(v, VList):
        return [v.n, v.a]
    if isinstance(v, VRec):
        return [t for n in sorted(v.f) for t in flatten(v.f[n])]
    return [pack(v)]


def unflatten(ty, terms):
    """consumes terms from the front of the list `terms`"""
    if isinstance(ty, TTuple):
        return VTuple([unflatten(t, terms) for t in ty.items])
    if isinstance(ty, TList):
        n = terms.pop(0)
        a = terms.pop(0)
        return VList(ty.elem, n, a)
    if isinstance(ty, TRec):
        return VRec(ty, {n: unflatten(ty.fields[n], terms) for n in sorted(ty.fields)})
    return unpack(ty, terms.pop(0))


def wf(v):
    """Well-formedness facts of a freshly introduced symbolic value (lengths >= 0, cardinalities >= 0)."""
    out = []
    if isinstance(v, VList):
        out.append(v.n >= 0)
        if _has_len(v.ety):
            i = z3.Int(fresh_name("wi"))
            inner = wf(v.get(i))
            if inner:
                out.append(z3.ForAll([i], z3.Implies(z3.And(0 <= i, i < v.n), z3.And(*inner))))
    elif isinstance(v, VTuple):
        for it in v.items:
            out += wf(it)
    elif isinstance(v, VOpt):
        out += [z3.Implies(z3.Not(v.isnone), c) for c in wf(v.v)]
    elif isinstance(v, (VSet, VDict)):
        out.append(v.c >= 0)
        # what len() of a finite set/dict reveals: empty or not, more than one element or not
        x = z3.Const(fresh_name("cx"), sort_of(v.kty))
        y = z3.Const(fresh_name("cy"), sort_of(v.kty))
        out.append((v.c > 0) == z3.Exists([x], z3.Select(v.m, x)))
        out.append((v.c > 1) == z3.Exists([x, y], z3.And(x != y, z3.Select(v.m, x), z3.Select(v.m, y))))
        if isinstance(v, VDict) and _has_len(v.vty):
            # the values stored under present keys are well-formed too (e.g. lists in a dict of lists have length >= 0)
            kk = z3.Const(fresh_name("wk"), sort_of(v.kty))
            inner = wf(unpack(v.vty, z3.Select(v.a, kk)))
            if inner:
                out.append(z3.ForAll([kk], z3.Implies(z3.Select(v.m, kk), z3.And(*inner))))
    elif isinstance(v, VRec):
        for n in v.f:
            out += wf(v.f[n])
    return out


def _has_len(ty):
    if isinstance(ty, (TList, TSet, TDict)):
        return True
    if isinstance(ty, TTuple):
        return any(_has_len(i) for i in ty.items)
    if isinstance(ty, TOpt):
        return _has_len(ty.inner)
    if isinstance(ty, TRec):
        return any(_has_len(t) for t in ty.fields.values())
    return False


def coerce(v, ty):
    """Convert v to declared type ty when a canonical embedding exists (None/T -> opt[T], int -> real, bool -> int)."""
    if v.ty == ty:
        return v
    if ty == ANY:
        return VAny(z3.Const(fresh_name("opaque"), sort_of(ANY)))
    if isinstance(ty, TOpt):
        if isinstance(v, VNone):
            return VOpt(ty.inner, z3.BoolVal(True), fresh_default(ty.inner))
        if isinstance(v, VOpt):
            return VOpt(ty.inner, v.isnone, coerce(v.v, ty.inner))
        return VOpt(ty.inner, z3.BoolVal(False), coerce(v, ty.inner))
    if ty == REAL and isinstance(v, VInt):
        return VReal(z3.ToReal(v.t))
    if ty == REAL and isinstance(v, VBool):
        return VReal(z3.If(v.t, z3.RealVal(1), z3.RealVal(0)))
    if ty == INT and isinstance(v, VBool):
        return VInt(z3.If(v.t, z3.IntVal(1), z3.IntVal(0)))
    if isinstance(ty, TTuple) and isinstance(v, VTuple) and len(ty.items) == len(v.items):
        return VTuple([coerce(i, t) for i, t in zip(v.items, ty.items)])
    if isinstance(ty, TList) and isinstance(v, VList):
        if v.ety == ty.elem:
            return v
        if v.ety == ANY or getattr(v, "empty_literal", False):
            return VList(ty.elem, v.n, z3.K(z3.IntSort(), pack(fresh_default(ty.elem))))
    if isinstance(ty, TRec) and isinstance(v, VRec) and v.ty.rname == ty.rname:
        return v
    if isinstance(ty, (TDict, TSet)) and getattr(v, "empty_literal", False):
        return zero_value(ty)
    if isinstance(ty, TSet) and isinstance(v, VSet) and v.kty == ty.key:
        return v
    if isinstance(ty, TDict) and isinstance(v, VDict) and v.kty == ty.key and v.vty == ty.val:
        return VDict(ty, v.m, v.a, v.c)
    raise Unsupported("cannot coerce %s to %s" % (v.ty, ty))


def zero_value(ty):
    """the empty / zero inhabitant: {} , set(), [], 0, 0.0, "", False; records field-wise"""
    if ty == INT:
        return VInt(0)
    if ty == REAL:
        return VReal(0)
    if ty == BOOL:
        return VBool(False)
    if ty == STR:
        return VStr("")
    if ty == NONE:
        return VNone()
    if isinstance(ty, TList):
        return VList(ty.elem, 0, z3.K(z3.IntSort(), pack(fresh_default(ty.elem))))
    if isinstance(ty, TSet):
        return VSet(ty.key, z3.K(sort_of(ty.key), z3.BoolVal(False)), z3.IntVal(0))
    if isinstance(ty, TDict):
        return VDict(ty, z3.K(sort_of(ty.key), z3.BoolVal(False)), z3.K(sort_of(ty.key), pack(fresh_default(ty.val))), z3.IntVal(0))
    if isinstance(ty, TOpt):
        return VOpt(ty.inner, z3.BoolVal(True), fresh_default(ty.inner))
    if isinstance(ty, TTuple):
        return VTuple([zero_value(t) for t in ty.items])
    if isinstance(ty, TRec):
        return VRec(ty, {n: zero_value(t) for n, t in ty.fields.items()})
    if ty == ANY or isinstance(ty, TEnum):
        return fresh_default(ty)
    raise Unsupported("no zero value for %s" % ty)


def fresh_default(ty):
    """An arbitrary-but-fixed inhabitant (used for the payload of a None option)."""
    return unpack(ty, z3.Const("dflt_" + sort_of(ty).name(), sort_of(ty)))


def ite(c, a, b):
    """Merge two values under condition c."""
    if a is b:
        return a
    if a.ty != b.ty and {a.ty, b.ty} <= {INT, REAL, BOOL}:
        t = REAL if REAL in (a.ty, b.ty) else INT
        return ite(c, coerce(a, t), coerce(b, t))
    if a.ty != b.ty:
        # None vs T / opt[T] vs T
        base = None
        for x in (a, b):
            if isinstance(x, VOpt):
                base = x.ity
            elif not isinstance(x, VNone):
                base = base or x.ty
        if base is None:
            raise Unsupported("ite of %s and %s" % (a.ty, b.ty))
        try:
            a2, b2 = coerce(a, TOpt(base)), coerce(b, TOpt(base))
        except Unsupported:
            if {a.ty, b.ty} <= {INT, REAL, BOOL}:
                t = REAL if REAL in (a.ty, b.ty) else INT
                return ite(c, coerce(a, t), coerce(b, t))
            raise
        return ite(c, a2, b2)
    if isinstance(a, VNone):
        return a
    if isinstance(a, VFunc):
        raise Unsupported("ite of functions")
    if isinstance(a, VRec):
        return VRec(a.ty, {n: ite(c, a.f[n], b.f[n]) for n in a.f})
    if isinstance(a, VTuple):
        return VTuple([ite(c, x, y) for x, y in zip(a.items, b.items)])
    if isinstance(a, VOpt):
        return VOpt(a.ity, z3.If(c, a.isnone, b.isnone), ite(c, a.v, b.v))
    return unpack(a.ty, z3.If(c, pack(a), pack(b)))


def eq(a, b):
    """Python == as a z3 Bool"""
    if isinstance(a, VNone) or isinstance(b, VNone):
        if isinstance(a, VNone) and isinstance(b, VNone):
            return z3.BoolVal(True)
        o = b if isinstance(a, VNone) else a
        if isinstance(o, VOpt):
            return o.isnone
        return z3.BoolVal(False)
    if isinstance(a, VOpt) or isinstance(b, VOpt):
        if isinstance(a, VOpt) and isinstance(b, VOpt):
            return z3.Or(z3.And(a.isnone, b.isnone), z3.And(z3.Not(a.isnone), z3.Not(b.isnone), eq(a.v, b.v)))
        o, x = (a, b) if isinstance(a, VOpt) else (b, a)
        return z3.And(z3.Not(o.isnone), eq(o.v, x))
    num = (VInt, VReal, VBool)
    if isinstance(a, num) and isinstance(b, num):
        if isinstance(a, VBool) and isinstance(b, VBool):
            return a.t == b.t
        if isinstance(a, VReal) or isinstance(b, VReal):
            return coerce(a, REAL).t == coerce(b, REAL).t
        return coerce(a, INT).t == coerce(b, INT).t
    if isinstance(a, VTuple) and isinstance(b, VTuple):
        if len(a.items) != len(b.items):
            return z3.BoolVal(False)
        return z3.And(*[eq(x, y) for x, y in zip(a.items, b.items)]) if a.items else z3.BoolVal(True)
    if isinstance(a, VList) and isinstance(b, VList):
        if getattr(a, "empty_literal", False):
            return b.n == 0
        if getattr(b, "empty_literal", False):
            return a.n == 0
        if a.ety != b.ety:
            raise Unsupported("== on lists of different element types %s %s" % (a.ety, b.ety))
        i = z3.Int(fresh_name("qi"))
        return z3.And(a.n == b.n, z3.ForAll([i], z3.Implies(z3.And(0 <= i, i < a.n), eq(a.get(i), b.get(i)))))
    if type(a) is not type(b):
        if isinstance(a, (VStr, VEnum, VTuple, VList)) and isinstance(b, (VStr, VEnum, VTuple, VList, VInt, VBool)):
            return z3.BoolVal(False)
        raise Unsupported("== between %s and %s" % (a.ty, b.ty))
    if isinstance(a, (VStr, VEnum, VAny)):
        return a.t == b.t
    if isinstance(a, VSet):
        k = z3.Const(fresh_name("qk"), sort_of(a.kty))
        return z3.ForAll([k], z3.Select(a.m, k) == z3.Select(b.m, k))
    if isinstance(a, VDict):
        k = z3.Const(fresh_name("qk"), sort_of(a.kty))
        return z3.ForAll([k], z3.And(z3.Select(a.m, k) == z3.Select(b.m, k),
                                     z3.Implies(z3.Select(a.m, k),
                                                eq(unpack(a.vty, z3.Select(a.a, k)), unpack(b.vty, z3.Select(b.a, k))))))
    if isinstance(a, VRec):
        return z3.And(*[eq(a.f[n], b.f[n]) for n in a.f])
    raise Unsupported("== on %s" % a.ty)


def truthy(v):
    if isinstance(v, VBool):
        return v.t
    if isinstance(v, VInt):
        return v.t != 0
    if isinstance(v, VReal):
        return v.t != 0
    if isinstance(v, VNone):
        return z3.BoolVal(False)
    if isinstance(v, VList):
        return v.n > 0
    if isinstance(v, VStr):
        return z3.Length(v.t) > 0
    if isinstance(v, VTuple):
        return z3.BoolVal(len(v.items) > 0)
    if isinstance(v, VOpt):
        return z3.And(z3.Not(v.isnone), truthy(v.v))
    if isinstance(v, (VSet, VDict)):
        return v.c > 0
    if isinstance(v, (VRec, VEnum, VFunc)):
        return z3.BoolVal(True)
    raise Unsupported("truthiness of %s" % v.ty)


def lex_lt(a, b, strict=True):
    """Python ordering on ints / tuples (lexicographic)"""
    if isinstance(a, VTuple) and isinstance(b, VTuple):
        if len(a.items) != len(b.items):
            raise Unsupported("ordering of tuples of different arity")
        if not a.items:
            return z3.BoolVal(not strict)
        res = lex_lt(a.items[-1], b.items[-1], strict)
        for x, y in reversed(list(zip(a.items[:-1], b.items[:-1]))):
            res = z3.Or(lex_lt(x, y, True), z3.And(eq(x, y), res))
        return res
    num = (VInt, VReal, VBool)
    if isinstance(a, num) and isinstance(b, num):
        ia, ib = getattr(a, "is_inf", False), getattr(b, "is_inf", False)
        if ib and not ia:
            return z3.BoolVal(True)   # anything finite < inf
        if ia and not ib:
            return z3.BoolVal(False)
        if isinstance(a, VReal) or isinstance(b, VReal):
            x, y = coerce(a, REAL).t, coerce(b, REAL).t
        else:
            x, y = coerce(a, INT).t, coerce(b, INT).t
        return x < y if strict else x <= y
    if isinstance(a, VStr) and isinstance(b, VStr):
        return a.t < b.t if strict else a.t <= b.t
    raise Unsupported("ordering on %s / %s" % (a.ty, b.ty))


def to_python(v, model):
    """Concrete Python value of v under a z3 model (model completion on)."""
    ev = lambda t: model.eval(t, model_completion=True)
    if isinstance(v, VInt):
        return ev(v.t).as_long()
    if isinstance(v, VReal):
        r = ev(v.t)
        try:
            return float(r.numerator_as_long()) / float(r.denominator_as_long())
        except Exception:
            return float(r.approx(10).numerator_as_long()) / float(r.approx(10).denominator_as_long())
    if isinstance(v, VBool):
        return z3.is_true(ev(v.t))
    if isinstance(v, VStr):
        return ev(v.t).as_string()
    if isinstance(v, VNone):
        return None
    if isinstance(v, VEnum):
        return ("enum", v.ty.ename, str(ev(v.t)).split("__", 1)[1])
    if isinstance(v, VTuple):
        return tuple(to_python(i, model) for i in v.items)
    if isinstance(v, VOpt):
        if z3.is_true(ev(v.isnone)):
            return None
        return to_python(v.v, model)
    if isinstance(v, VList):
        n = ev(v.n).as_long()
        if n > 64:
            raise Unsupported("model list too long (%d)" % n)
        return [to_python(unpack(v.ety, ev(z3.Select(v.a, z3.IntVal(i)))), model) for i in range(max(n, 0))]
    if isinstance(v, VRec):
        return {"__rec__": v.ty.rname, **{n: to_python(x, model) for n, x in v.f.items()}}
    if isinstance(v, VAny):
        return ("any", str(ev(v.t)))
    if isinstance(v, (VSet, VDict)):
        return ("unmodelled-" + str(v.ty),)
    raise Unsupported("to_python %s" % v.ty)
