"""Symbolic state, obligations and path bookkeeping."""
import z3
from .val import *


class Obligation:
    __slots__ = ("func", "kind", "site", "assumptions", "goal", "info", "path", "inputs", "line", "reveal")

    def __init__(self, func, kind, site, assumptions, goal, info="", path=0, inputs=None, line=0):
        self.func = func
        self.kind = kind
        self.site = site
        self.assumptions = list(assumptions)
        self.goal = goal
        self.info = info
        self.path = path
        self.inputs = inputs  # name -> Val  (entry values of the parameters, for counterexample extraction)
        self.line = line
        self.reveal = ()

    @property
    def name(self):
        return "%s.%s.%s" % (self.func, self.kind, self.site)


class State:
    def __init__(self, vars=None, pc=None, guard=None):
        self.vars = dict(vars or {})
        self.pc = list(pc or [])
        self.guard = list(guard or [])  # expression-level conditions (short-circuit context)
        self.entry = None  # State at function entry (for old())
        self.alias = {}  # local name -> ast expression it aliases (reference semantics for mutable containers)
        self.depth = 0
        self.retval = None
        self.ghost = {}

    def copy(self):
        s = State(self.vars, self.pc, self.guard)
        s.entry = self.entry
        s.alias = dict(self.alias)
        s.depth = self.depth
        s.ghost = dict(self.ghost)
        return s

    def assume(self, c):
        if z3.is_true(c):
            return
        self.pc.append(c)

    def conds(self):
        return self.pc + self.guard


class PathLimit(Exception):
    pass


_feas_cache = {}


def feasible(conds, timeout_ms=400):
    """False only if the conjunction is proved unsatisfiable."""
    if not conds:
        return True
    s = z3.Solver()
    s.set("timeout", timeout_ms)
    s.add(*conds)
    r = s.check()
    return r != z3.unsat
