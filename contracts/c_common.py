"""Contracts for src/common.py — interval and profile primitives (C19), CIGAR walkers (C16), strand tables (C18).

Specification style: every range primitive is specified pointwise on integer positions, i.e. against the set
{p | lo <= p <= hi} the interval denotes, not against another formula of the same shape."""
from pyvc.api import contract, spec, lemma, enum_from_repo

C = "src/common.py:"
IV = "tuple[int,int]"
IVS = "list[tuple[int,int]]"

CLASS_HOME = {"CigarEvent": "src/common.py", "TranscriptNaming": "src/common.py"}
enum_from_repo("src/common.py", "CigarEvent")


# ---- spec functions ---------------------------------------------------------------------------------------------
@spec("tuple[int,int] -> bool")
def ok(r):
    return r[0] <= r[1]


@spec("tuple[int,int], int -> bool")
def inside(r, p):
    return r[0] <= p <= r[1]


@spec("list[tuple[int,int]] -> bool")
def WF(L):
    # sorted, disjoint, non-empty intervals.  Stated pairwise (equivalent to the consecutive form because lo <= hi) so that
    # the quantifier has no arithmetic in its trigger (i+1 would start a matching loop in the solver)
    return all(L[i][0] <= L[i][1] for i in range(len(L))) and \
        all(L[i][1] < L[j][0] for i in range(len(L)) for j in range(i + 1, len(L)))


@spec("list[tuple[int,int]] -> bool")
def WFgap(L):
    return all(L[i][0] <= L[i][1] for i in range(len(L))) and \
        all(L[i][1] + 1 < L[j][0] for i in range(len(L)) for j in range(i + 1, len(L)))


@spec("list[tuple[int,int]], int -> int")
def slen(L, n):
    return 0 if n <= 0 else slen(L, n - 1) + (L[n - 1][1] - L[n - 1][0] + 1)


@spec("list[tuple[int,int]], int, int -> int")
def below(L, n, p):
    # number of positions < p covered by the first n intervals
    return 0 if n <= 0 else below(L, n - 1, p) + max(0, min(L[n - 1][1] + 1, p) - L[n - 1][0])


@spec("list[tuple[int,int]], int, int -> int")
def above(L, n, p):
    # number of positions > p covered by the intervals n .. len-1   (n counts from the left)
    return 0 if n >= len(L) else above(L, n + 1, p) + max(0, L[n][1] - max(L[n][0] - 1, p))


# ---- single-interval primitives ---------------------------------------------------------------------------------
contract(C + "overlaps", {"range1": IV, "range2": IV}, returns="bool", transparent=True, props=["C19"],
         requires=["ok(range1)", "ok(range2)"],
         ensures=["result == any(inside(range2, p) for p in range(range1[0], range1[1] + 1))"],
         canary="result == (range1[1] <= range2[0] or range1[0] > range2[1])")

contract(C + "overlap_intervals", {"range1": IV, "range2": IV}, returns=IV, transparent=True, props=["C19"],
         requires=["ok(range1)", "ok(range2)"],
         ensures=["all((inside(range1, p) and inside(range2, p)) == inside(result, p) "
                  "for p in range(min(range1[0], range2[0]) - 1, max(range1[1], range2[1]) + 2))"],
         canary="result[0] <= result[1]")

contract(C + "intersection_len", {"range1": IV, "range2": IV}, returns="int", transparent=True, props=["C19"],
         requires=["ok(range1)", "ok(range2)"],
         # |r1 ∩ r2|: the intersection is the interval [max lo, min hi] (pointwise, first clause), whose size is hi-lo+1 or 0
         ensures=["all((inside(range1, p) and inside(range2, p)) == (max(range1[0], range2[0]) <= p <= min(range1[1], range2[1])) "
                  "for p in range(min(range1[0], range2[0]) - 1, max(range1[1], range2[1]) + 2))",
                  "result == max(0, min(range1[1], range2[1]) - max(range1[0], range2[0]) + 1)",
                  "(result > 0) == any(inside(range2, p) for p in range(range1[0], range1[1] + 1))"],
         canary="result > 0")

contract(C + "left_of", {"range1": IV, "range2": IV}, returns="bool", transparent=True, props=["C19"],
         requires=["ok(range1)", "ok(range2)"],
         ensures=["result == all(p < range2[0] for p in range(range1[0], range1[1] + 1))"],
         canary="result == (range1[0] < range2[0])")

contract(C + "equal_ranges", {"range1": IV, "range2": IV, "delta": "int"}, returns="bool", transparent=True, props=["C19"],
         requires=["delta >= 0"],
         ensures=["result == (-delta <= range1[0] - range2[0] <= delta and -delta <= range1[1] - range2[1] <= delta)",
                  "delta > 0 or result == (range1 == range2)"],
         canary="result == (range1 == range2)")

contract(C + "covers_end", {"bigger_range": IV, "smaller_range": IV}, returns="bool", transparent=True, props=["C19", "C11"],
         ensures=["result == (inside(bigger_range, smaller_range[0]) and inside(smaller_range, bigger_range[1]))"])

contract(C + "covers_start", {"bigger_range": IV, "smaller_range": IV}, returns="bool", transparent=True, props=["C19", "C11"],
         ensures=["result == (inside(smaller_range, bigger_range[0]) and inside(bigger_range, smaller_range[1]))"])

contract(C + "contains", {"bigger_range": IV, "smaller_range": IV}, returns="bool", transparent=True, props=["C19"],
         requires=["ok(smaller_range)"],
         ensures=["result == all(inside(bigger_range, p) for p in range(smaller_range[0], smaller_range[1] + 1))"],
         canary="result == (bigger_range[0] <= smaller_range[0])")

contract(C + "contains_well_inside", {"bigger_range": IV, "smaller_range": IV, "delta": "int"}, returns="bool",
         transparent=True, props=["C19"], requires=["ok(smaller_range)", "delta >= 0"],
         ensures=["result == all(inside(bigger_range, p) for p in range(smaller_range[0] - delta, smaller_range[1] + delta + 1))"])

contract(C + "contains_approx", {"bigger_range": IV, "smaller_range": IV, "delta": "int"}, returns="bool",
         transparent=True, props=["C19"], requires=["ok(smaller_range)", "delta >= 0"],
         ensures=["result == all(bigger_range[0] - delta <= p <= bigger_range[1] + delta "
                  "for p in range(smaller_range[0], smaller_range[1] + 1))"])

contract(C + "max_range", {"range1": IV, "range2": IV}, returns=IV, transparent=True, props=["C19"],
         requires=["ok(range1)", "ok(range2)"],
         # smallest interval containing both
         ensures=["inside(result, range1[0]) and inside(result, range1[1]) and inside(result, range2[0]) and inside(result, range2[1])",
                  "result[0] in (range1[0], range2[0]) and result[1] in (range1[1], range2[1])"],
         canary="result == range1")

contract(C + "interval_len", {"interval": IV}, returns="int", transparent=True, props=["C19"],
         ensures=["result == interval[1] - interval[0] + 1"])

contract(C + "overlaps_at_least", {"range1": IV, "range2": IV, "delta": "int"}, returns="bool", transparent=True,
         props=["C19"], requires=["ok(range1)", "ok(range2)", "delta >= 0"],
         # true iff the ranges overlap and either the overlap has at least delta positions or one contains the other
         ensures=["result == (max(range1[0], range2[0]) <= min(range1[1], range2[1]) and "
                  "(min(range1[1], range2[1]) - max(range1[0], range2[0]) + 1 >= delta - 0 or "
                  " min(range1[1], range2[1]) - max(range1[0], range2[0]) >= delta - 1 or "
                  " (range1[0] >= range2[0] and range1[1] < range2[1]) or (range1[0] <= range2[0] and range1[1] >= range2[1])))"],
         canary="result == (max(range1[0], range2[0]) <= min(range1[1], range2[1]))")

contract(C + "overlaps_at_least_when_overlap", {"range1": IV, "range2": IV, "delta": "int"}, returns="bool",
         transparent=True, props=["C19"],
         # the "dangerous function" comment becomes the precondition: the ranges overlap
         requires=["ok(range1)", "ok(range2)", "delta >= 0", "max(range1[0], range2[0]) <= min(range1[1], range2[1])"],
         ensures=["result == (min(range1[1], range2[1]) - max(range1[0], range2[0]) + 1 >= delta or "
                  "(range1[0] >= range2[0] and range1[1] < range2[1]) or (range1[0] <= range2[0] and range1[1] >= range2[1]))"])

# ---- sums over sorted interval lists ------------------------------------------------------------------------------
contract(C + "intervals_total_length", {"sorted_range_list": IVS}, returns="int", props=["C19"],
         ensures=["result == slen(sorted_range_list, len(sorted_range_list))"],
         loops={0: {"inv": ["total_len == slen(sorted_range_list, _k0)"]}},
         canary="result == slen(sorted_range_list, len(sorted_range_list) - 1)")

lemma("below_mono_lo", {"L": IVS, "a": "int", "b": "int"}, props=["C19"],
      requires=["WF(L)", "0 <= a <= b < len(L)"], ensures=["L[a][0] <= L[b][0]", "a == b or L[a][1] < L[b][0]"],
      induct="b", base="a")

lemma("below_tail_zero", {"L": IVS, "i": "int", "m": "int", "p": "int"}, props=["C19"],
      requires=["WF(L)", "0 <= i <= m <= len(L)", "i == len(L) or L[i][0] >= p"],
      ensures=["below(L, m, p) == below(L, i, p)"], induct="m", base="i",
      uses=["below_mono_lo(L, i, m - 1)"])

lemma("below_all", {"L": IVS, "m": "int", "p": "int"}, props=["C19"],
      requires=["WF(L)", "0 <= m <= len(L)", "m == 0 or p > L[m - 1][1]"],
      ensures=["below(L, m, p) == slen(L, m)"], induct="m", base="0",
      uses=["below_mono_lo(L, m - 2, m - 1)"])

contract(C + "sum_intervals_to_point", {"sorted_range_list": IVS, "pos": "int"}, returns="int", props=["C19", "C11"],
         requires=["len(sorted_range_list) > 0", "WF(sorted_range_list)"],
         ensures=["result == below(sorted_range_list, len(sorted_range_list), pos)"],
         loops={0: {"inv": ["0 <= i <= len(sorted_range_list)", "total_len == below(sorted_range_list, i, pos)"],
                    "exit_hints": ["below_tail_zero(sorted_range_list, i, len(sorted_range_list), pos)"]}},
         hints={"entry": ["below_tail_zero(sorted_range_list, 0, len(sorted_range_list), pos)",
                          "below_all(sorted_range_list, len(sorted_range_list), pos)"]},
         canary="result == below(sorted_range_list, len(sorted_range_list), pos + 1)")

lemma("above_mono", {"L": IVS, "a": "int", "b": "int"}, props=["C19"],
      requires=["WF(L)", "0 <= a <= b < len(L)"], ensures=["L[a][1] <= L[b][1]", "a == b or L[a][1] < L[b][0]"],
      induct="b", base="a")

@spec("list[tuple[int,int]], int -> int")
def ngaps(B, n):
    # number of i < n such that blocks i and i+1 are separated by at least one position
    return 0 if n <= 0 else ngaps(B, n - 1) + (1 if B[n - 1][1] + 1 < B[n][0] else 0)


contract(C + "junctions_from_blocks", {"sorted_blocks": IVS}, returns=IVS, props=["C19", "C03"],
         requires=["WF(sorted_blocks)"],
         locals={"junctions": IVS},
         # the junctions are exactly the gaps between consecutive blocks, in order: the k-th gap sits at index k
         ensures=["WFgap(result)",
                  "len(result) == ngaps(sorted_blocks, len(sorted_blocks) - 1)",
                  "all(result[ngaps(sorted_blocks, i)] == (sorted_blocks[i][1] + 1, sorted_blocks[i + 1][0] - 1) "
                  "    for i in range(len(sorted_blocks) - 1) if sorted_blocks[i][1] + 1 < sorted_blocks[i + 1][0])"],
         loops={0: {"inv": [
             "len(junctions) == ngaps(sorted_blocks, _k0)", "0 <= len(junctions) <= _k0",
             "WFgap(junctions)",
             "len(junctions) == 0 or junctions[len(junctions) - 1][1] < sorted_blocks[_k0][0]",
             "all(junctions[ngaps(sorted_blocks, i)] == (sorted_blocks[i][1] + 1, sorted_blocks[i + 1][0] - 1) "
             "    for i in range(_k0) if sorted_blocks[i][1] + 1 < sorted_blocks[i + 1][0])",
             "all(0 <= ngaps(sorted_blocks, i) <= ngaps(sorted_blocks, i + 1) <= len(junctions) for i in range(_k0))",
         ]}},
         canary="len(result) == max(0, len(sorted_blocks) - 1)")

contract(C + "get_first_best_from_sorted", {"sorted_list_of_pairs": "list[tuple[int,int]]"}, returns="list[int]",
         props=["C19"], locals={"result": "list[int]"},
         requires=["all(sorted_list_of_pairs[i][1] <= sorted_list_of_pairs[i + 1][1] for i in range(len(sorted_list_of_pairs) - 1))"],
         # exactly the keys whose value equals the first (smallest) value, as a prefix in order
         ensures=["len(result) <= len(sorted_list_of_pairs)",
                  "all(result[i] == sorted_list_of_pairs[i][0] and sorted_list_of_pairs[i][1] == sorted_list_of_pairs[0][1] for i in range(len(result)))",
                  "len(result) == len(sorted_list_of_pairs) or sorted_list_of_pairs[len(result)][1] > sorted_list_of_pairs[0][1]",
                  "len(sorted_list_of_pairs) == 0 or len(result) >= 1"],
         loops={0: {"inv": ["len(result) == _k0", "best_value == sorted_list_of_pairs[0][1]",
                            "all(result[i] == sorted_list_of_pairs[i][0] and sorted_list_of_pairs[i][1] == best_value for i in range(_k0))"]}},
         canary="len(result) == len(sorted_list_of_pairs)")

contract(C + "rindex", {"l": "list[int]", "el": "int"}, returns="int", props=["C19"],
         raises={"ValueError": "not any(l[i] == el for i in range(len(l)))"},
         ensures=["0 <= result < len(l) and l[result] == el", "all(l[j] != el for j in range(result + 1, len(l)))"],
         loops={0: {"inv": ["all(l[j] != el for j in range(len(l) - _k0, len(l)))"]}},
         canary="result == 0")

contract(C + "argmin", {"l": "list[int]"}, returns="int", props=["C19"],
         ensures=["(result == -1) == (len(l) == 0)",
                  "len(l) == 0 or (0 <= result < len(l) and all(l[result] <= l[j] for j in range(len(l))) "
                  "and all(l[j] > l[result] for j in range(result)))"],
         loops={0: {"inv": ["0 <= min_i < len(l)", "min_i <= _k0", "min_v == l[min_i]", "all(min_v <= l[j] for j in range(_k0))",
                            "all(l[j] > min_v for j in range(min_i))"]}},
         canary="result == 0")
