"""Contracts for src/read_groups.py and the group-id bookkeeping of src/long_read_counter.py (C09)."""
from pyvc.api import contract, spec, lemma, record, bounded, finite
from pyvc import native

R = "src/read_groups.py:"
CLASS_HOME = {"AbstractReadGrouper": "src/read_groups.py", "DefaultReadGrouper": "src/read_groups.py",
              "AlignmentTagReadGrouper": "src/read_groups.py", "ReadIdSplitReadGrouper": "src/read_groups.py",
              "ReadTableGrouper": "src/read_groups.py", "FileNameGrouper": "src/read_groups.py"}

# the part of a pysam record the groupers look at
record("AlignedSegment", {"query_name": "str", "tags": "dict[str,str]"})
record("DefaultReadGrouper", {"read_groups": "set[str]"})
record("AlignmentTagReadGrouper", {"read_groups": "set[str]", "tag": "str"})
record("ReadIdSplitReadGrouper", {"read_groups": "set[str]", "delim": "str"})
record("ReadTableGrouper", {"read_groups": "set[str]", "read_map": "dict[str,str]"})
record("FileNameGrouper", {"read_groups": "set[str]", "readable_names_dict": "dict[str,str]"})


class _StubAln:
    """stands in for pysam.AlignedSegment: exactly query_name and get_tag (KeyError when absent)"""
    def __init__(self, query_name, tags):
        self.query_name = query_name
        self.tags = dict(tags)

    def get_tag(self, t):
        return self.tags[t]


def _conv(argmap):
    a = argmap["alignment"]
    if isinstance(a, dict):
        argmap["alignment"] = _StubAln(a["query_name"], a["tags"])
    return argmap


for _r in ("DefaultReadGrouper", "AlignmentTagReadGrouper", "ReadIdSplitReadGrouper", "ReadTableGrouper", "FileNameGrouper"):
    native.RECORD_CLASSES[_r] = ("src/read_groups.py", _r)

# pysam's get_tag: external, contract assumed
contract("pysam:AlignedSegment.get_tag", {"self": "rec:AlignedSegment", "tag": "str"}, returns="str", trusted=True,
         params=["self", "tag"], raises={"KeyError": "tag not in self.tags"},
         ensures=["result == self.tags[tag]"], props=[], native=False,
         note="pysam: get_tag returns the tag value and raises KeyError when the tag is absent")


def _aln(rng):
    return {"__rec__": "AlignedSegment", "query_name": rng.choice(["r1", "read_7_groupA", "x_y", "noDelim", "a_b_c", "_", "m54_ccs__cellA", "x__y__z", "a/b/c", "tail__"]),
            "tags": rng.choice([{}, {"RG": "g1"}, {"CB": "cell9", "RG": "g2"}])}


def _groups(rng):
    return set(rng.sample(["g1", "g2", "NA", "cell9", "groupA"], rng.randint(0, 3)))


GEN = lambda rec, extra: (lambda rng, n: ({"self": dict({"__rec__": rec, "read_groups": _groups(rng)}, **extra(rng)),
                                           "alignment": _aln(rng), "filename": rng.choice([None, "a.bam", "b.bam", "", "rep1/reads.bam", "rep2/reads.bam"])}
                                          for _ in range(n)))

COMMON = dict(returns="str", modifies=["self.read_groups"], native_args=_conv)
FRAME = ["all(g in self.read_groups for g in old(self.read_groups))",
         "all(g in old(self.read_groups) or g == result for g in self.read_groups)"]

contract(R + "DefaultReadGrouper.get_group_id", {"self": "rec:DefaultReadGrouper", "alignment": "rec:AlignedSegment", "filename": "opt[str]"},
         props=["C09"], requires=["'NA' in self.read_groups"],
         ensures=["result == 'NA'", "result in self.read_groups"] + FRAME, gen=GEN("DefaultReadGrouper", lambda r: {}),
         **COMMON)

contract(R + "AlignmentTagReadGrouper.get_group_id",
         {"self": "rec:AlignmentTagReadGrouper", "alignment": "rec:AlignedSegment", "filename": "opt[str]"}, props=["C09"],
         # the tag value, NA when the read has no such tag; the group is registered either way
         ensures=["result == (alignment.tags[self.tag] if self.tag in alignment.tags else 'NA')",
                  "result in self.read_groups"] + FRAME,
         gen=GEN("AlignmentTagReadGrouper", lambda r: {"tag": r.choice(["RG", "CB", "ZZ"])}), canary="result == 'NA'",
         **COMMON)

contract(R + "ReadIdSplitReadGrouper.get_group_id",
         {"self": "rec:ReadIdSplitReadGrouper", "alignment": "rec:AlignedSegment", "filename": "opt[str]"}, props=["C09"],
         requires=["len(self.delim) > 0"],
         # the suffix after the last delimiter; a read id without the delimiter is reported under NA rather than aborting
         ensures=["result in self.read_groups",
                  "self.delim in alignment.query_name or result == 'NA'",
                  "self.delim not in alignment.query_name or self.delim not in result"] + FRAME,
         native_ensures=["isinstance(result, str)", "result in self.read_groups",
                         "self.delim in alignment.query_name or result == 'NA'",
                         "self.delim not in alignment.query_name or result == alignment.query_name.split(self.delim)[-1]"],
         gen=GEN("ReadIdSplitReadGrouper", lambda r: {"delim": r.choice(["_", "/", "__"])}), **COMMON)

contract(R + "ReadTableGrouper.get_group_id",
         {"self": "rec:ReadTableGrouper", "alignment": "rec:AlignedSegment", "filename": "opt[str]"}, props=["C09"],
         ensures=["result == (self.read_map[alignment.query_name] if alignment.query_name in self.read_map else 'NA')",
                  "result in self.read_groups"] + FRAME,
         gen=GEN("ReadTableGrouper", lambda r: {"read_map": r.choice([{}, {"r1": "g1"}, {"x_y": "g2", "r1": "g1"}])}),
         canary="result == 'NA'", **COMMON)

contract(R + "FileNameGrouper.get_group_id",
         {"self": "rec:FileNameGrouper", "alignment": "rec:AlignedSegment", "filename": "opt[str]"}, props=["C09"],
         # the file label when one is known, else NA for a missing file name, else the file name itself
         ensures=["result in self.read_groups",
                  "filename is None or filename not in self.readable_names_dict or result == self.readable_names_dict[filename]",
                  "not (filename is None or len(filename) == 0) or result == 'NA' or (filename is not None and filename in self.readable_names_dict)",
                  ] + FRAME,
         gen=GEN("FileNameGrouper", lambda r: {"readable_names_dict": r.choice([{}, {"a.bam": "a"}, {"a.bam": "a", "b.bam": "b"},
                                                                          {"rep1/reads.bam": "ctrl", "rep2/reads.bam": "treat"}])}),
         **COMMON)


# ---- AssignedFeatureCounter.__init__: numeric group ids and the sorted name list are the same bijection ------------------
record("AssignedFeatureCounterIds", {"group_numeric_ids": "dict[str,int]", "ordered_groups": "list[str]",
                                     "assignment_extractor": "any", "all_features": "any"})
CLASS_HOME["AssignedFeatureCounter"] = "src/long_read_counter.py"


_AFC_DIR = None


def _afc_native(argmap):
    import tempfile, os
    lrc = native.repo_import("src/long_read_counter.py")
    # one scratch directory per process, reused by every sample (the constructor only opens output files lazily)
    global _AFC_DIR
    if _AFC_DIR is None or not os.path.isdir(_AFC_DIR):
        import atexit, shutil
        _AFC_DIR = tempfile.mkdtemp(prefix="afc", dir=os.path.join(os.path.dirname(os.path.dirname(__file__)), ".run"))
        atexit.register(shutil.rmtree, _AFC_DIR, True)
    d = _AFC_DIR
    argmap["_dir"] = d
    argmap["output_prefix"] = os.path.join(d, "x")
    argmap["assignment_extractor"] = lrc.TranscriptAssignmentExtractor
    argmap["read_counter"] = lrc.ReadWeightCounter("unique_only")
    argmap["all_features"] = None
    argmap["output_zeroes"] = True
    argmap["grouped_format"] = lrc.GroupedOutputFormat.both
    cls = lrc.AssignedFeatureCounter
    argmap["self"] = cls.__new__(cls)
    return argmap


contract("src/long_read_counter.py:AssignedFeatureCounter.__init__",
         {"self": "rec:AssignedFeatureCounterIds", "output_prefix": None, "assignment_extractor": None, "read_groups": "set[str]",
          "read_counter": None, "all_features": None, "output_zeroes": None, "grouped_format": None},
         returns="none", props=["C09"], modifies=["self.group_numeric_ids", "self.ordered_groups"],
         slice={"from": "if not read_groups", "to": "self.read_counter = read_counter"},
         # every group name maps to the column in which its name is printed (ids and sorted names are one bijection)
         ensures=["len(read_groups) == 0 or all(g in self.group_numeric_ids and 0 <= self.group_numeric_ids[g] < len(self.ordered_groups) "
                  "and self.ordered_groups[self.group_numeric_ids[g]] == g for g in read_groups)",
                  "len(read_groups) == 0 or len(self.ordered_groups) == len(read_groups)",
                  "len(read_groups) > 0 or (self.ordered_groups == ['NA'] and self.group_numeric_ids['NA'] == 0)"],
         loops={0: {"inv": ["all(self.ordered_groups[j] in self.group_numeric_ids and self.group_numeric_ids[self.ordered_groups[j]] == j for j in range(_k0))",
                            "len(self.ordered_groups) == len(read_groups)",
                            "all(self.ordered_groups[a] != self.ordered_groups[b] for a in range(len(self.ordered_groups)) for b in range(a + 1, len(self.ordered_groups)))",
                            "all(any(self.ordered_groups[j] == g for j in range(len(self.ordered_groups))) for g in read_groups)"]}},
         native_args=_afc_native,
         gen=lambda rng, n: ({"self": None, "read_groups": set(rng.sample(["b", "a", "NA", "g10", "g2", "zeta", "cell_1", "cell_12"], rng.randint(0, 6)))}
                             for _ in range(n)))


# ---- --read_group file:...: the per-chromosome split of the user's table (pysam + files; bounded) --------------------------------
def _split_case(seed):
    import os, random, shutil, tempfile, types
    import pysam
    rng = random.Random(seed)
    rg = native.repo_import("src/read_groups.py")
    base = os.path.join(os.path.dirname(os.path.dirname(os.path.abspath(__file__))), ".run")
    os.makedirs(base, exist_ok=True)
    d = tempfile.mkdtemp(prefix="rgt", dir=base)
    problems = []
    try:
        chroms = ["chrA", "chrB", "chrC"][:rng.randint(2, 3)]
        header = {"HD": {"VN": "1.0", "SO": "coordinate"}, "SQ": [{"SN": c, "LN": 10000} for c in chroms]}
        reads = ["r%d" % k for k in range(rng.randint(3, 8))]
        table = {r: rng.choice(["G1", "G2", "G3"]) for r in reads if rng.random() < .75}
        recs = []
        for r in reads:
            where = rng.sample(range(len(chroms)), rng.randint(1, len(chroms)))      # some reads align to several chromosomes
            for j, ci in enumerate(where):
                for _rep in range(rng.randint(1, 2)):
                    recs.append((ci, rng.randint(10, 9000), r, j > 0))
        recs.sort()
        bam = os.path.join(d, "x.bam")
        with pysam.AlignmentFile(bam, "wb", header=header) as out:
            for ci, pos, r, suppl in recs:
                a = pysam.AlignedSegment()
                a.query_name, a.query_sequence, a.flag = r, "A" * 20, (2048 if suppl else 0)
                a.reference_id, a.reference_start, a.mapping_quality, a.cigar = ci, pos, 60, [(0, 20)]
                out.write(a)
        pysam.index(bam)
        tfile = os.path.join(d, "groups.tsv")
        # the user's table layout (own generator: the cases of earlier seeds keep their BAM and table): which column holds the read id,
        # which the group, the delimiter; given through the documented spec --read_group file:FILE[:READ_COL:GROUP_COL[:DELIM]]
        rng2 = random.Random(seed * 17 + 3)
        rcol, gcol = rng2.choice([(0, 1), (0, 1), (1, 0), (0, 2), (2, 1)])
        delim = rng2.choice(["\t", "\t", ",", ";", " ", ", "])
        with open(tfile, "w") as f:
            f.write("#comment line\n")
            for r, g in table.items():
                cols = ["filler%d" % k_ for k_ in range(3)]
                cols[rcol], cols[gcol] = r, g
                f.write(delim.join(cols) + "\n")
        spec_str = "file:%s" % tfile if (rcol, gcol, delim) == (0, 1, "\t") and rng2.random() < .5 else \
            ("file:%s:%d:%d" % (tfile, rcol, gcol) if delim == "\t" else "file:%s:%d:%d:%s" % (tfile, rcol, gcol, delim))
        args = types.SimpleNamespace(read_group=spec_str)
        sample = types.SimpleNamespace(file_list=[[bam]], read_group_file=os.path.join(d, "split"), readable_names_dict={})
        rg.prepare_read_groups(args, sample)
        for ci, c in enumerate(chroms):
            path = sample.read_group_file + "_" + c
            if not os.path.exists(path):
                problems.append("no split table for %s" % c)
                continue
            grouper = rg.create_read_grouper(args, sample, c)
            for ci2, pos, r, suppl in recs:
                if ci2 != ci:
                    continue
                got = grouper.get_group_id(types.SimpleNamespace(query_name=r))
                want = table.get(r, "NA")
                if got != want:
                    problems.append("read %s on %s grouped as %s, the table says %s (--read_group %s)" % (r, c, got, want, spec_str.replace(tfile, "FILE")))
    finally:
        shutil.rmtree(d, ignore_errors=True)
    return problems


def replay_split(d):
    p = _split_case(d["inputs"]["seed"])
    return (not p), "seed %s: %s" % (d["inputs"]["seed"], p or "every alignment grouped as the table says")


@bounded("C09.read_group_table_split", ["C09"], shards=4, note="real prepare_read_groups / create_read_grouper for --read_group file:FILE[:READ_COL:GROUP_COL[:DELIM]] (column layouts 0:1, 1:0, 0:2, 2:1; tab, comma, semicolon, blank, comma + blank) on a pysam-written BAM with 2-3 references where some reads "
         "align to several chromosomes (supplementary records), then the real per-chromosome ReadTableGrouper: every alignment of a read "
         "listed in the user's table must be grouped under the table's entry on every chromosome, unlisted reads under NA")
def c09_split(tier, rng):
    n = 40 if tier == "quick" else 1500
    base = rng.randrange(10 ** 9)
    for k in range(n):
        try:
            p = _split_case(base + k)
        except Exception as e:
            p = ["exception %s: %s" % (type(e).__name__, e)]
        if p:
            return {"cases": k + 1, "bound": "%d BAMs" % n, "violations": [{
                "obligation": "C09.read_group_table_split", "inputs": {"seed": base + k}, "observed": p[:3],
                "required": "table entry on every chromosome", "replay_call": "contracts.c_groups:replay_split"}]}
    return {"cases": n, "bound": "%d random BAM/table pairs" % n, "violations": [], "samples": [{"seed": base}]}


# ---- load_table: malformed rows are skipped (their reads end up under NA), never abort the run ------------------------------------------------
@finite("C09.table_rows", ["C09"], note="the real load_table on every table made of <= 3 rows drawn from 9 row shapes (complete, one cell short, empty "
        "group cell, extra cells, blank, comment, duplicate id) x 4 (read column, group column) layouts: no exception, exactly the rows that "
        "have both cells are loaded, later duplicates win")
def c09_table_rows(tier, rng):
    import itertools, os, shutil, tempfile
    rg = native.repo_import("src/read_groups.py")
    base = os.path.join(os.path.dirname(os.path.dirname(os.path.abspath(__file__))), ".run")
    os.makedirs(base, exist_ok=True)
    d = tempfile.mkdtemp(prefix="tbl", dir=base)
    shapes = ["r1\tg1", "r2", "r3\t", "r4\tg2\tx", "", "#r9\tg9", "r1\tg7", "\tg5", "r6\tg6\t"]
    obl = dis = 0
    viol = []
    try:
        for ri, gi in ((0, 1), (1, 0), (0, 2), (2, 1)):
            for n in (1, 2, 3):
                for rows in itertools.product(shapes, repeat=n):
                    obl += 1
                    path = os.path.join(d, "t.tsv")
                    open(path, "w").write("\n".join(rows) + "\n")
                    want = {}
                    for line in rows:
                        line = line.strip()
                        if not line or line.startswith("#"):
                            continue
                        cols = line.split("\t")
                        if len(cols) > max(ri, gi):
                            want[cols[ri]] = cols[gi]
                    try:
                        got = rg.load_table(path, ri, gi, "\t")
                        ok = got == want
                    except Exception as e:
                        got, ok = "%s: %s" % (type(e).__name__, e), False
                    if ok:
                        dis += 1
                    elif len(viol) < 3:
                        viol.append({"obligation": "C09.table_rows.%d_%d.%d" % (ri, gi, obl), "inputs": {"rows": list(rows), "read_column": ri, "group_column": gi},
                                     "observed": got, "required": want})
    finally:
        shutil.rmtree(d, ignore_errors=True)
    return {"obligations": obl, "discharged": dis, "violations": viol, "cases": obl, "exhaustive": True,
            "bound": "tables of <= 3 rows over 9 row shapes x 4 column layouts", "samples": [{"rows": ["r1\tg1", "r2"], "read_column": 0, "group_column": 1}]}


@finite("C09.tag_types", ["C09"], note="the real AlignmentTagReadGrouper on pysam records whose tag is a string, an integer, a float, a character or "
        "absent: the group id is the tag value as a string (NA when absent) and is what gets registered; group ids must be strings because they "
        "are serialised with write_string")
def c09_tag_types(tier, rng):
    import pysam
    rg = native.repo_import("src/read_groups.py")
    obl = dis = 0
    viol = []
    for tag, value, vt in (("RG", "g1", None), ("RG", "cell 7", None), ("NM", 3, "i"), ("XI", 0, "i"), ("XF", 2.5, "f"), ("XC", "A", "A"), ("RG", None, None)):
        obl += 1
        a = pysam.AlignedSegment()
        a.query_name = "r"
        if value is not None:
            a.set_tag(tag, value, value_type=vt) if vt else a.set_tag(tag, value)
        g = rg.AlignmentTagReadGrouper(tag)
        try:
            got = g.get_group_id(a)
            want = "NA" if value is None else str(value)
            ok = isinstance(got, str) and got == want and g.read_groups == {want}
        except Exception as e:
            got, ok = "%s: %s" % (type(e).__name__, e), False
        if ok:
            dis += 1
        else:
            viol.append({"obligation": "C09.tag_types.%s_%s" % (tag, type(value).__name__), "inputs": {"tag": tag, "value": value},
                         "observed": repr(got), "required": "the tag value as a string, registered as the read's group"})
    return {"obligations": obl, "discharged": dis, "violations": viol, "cases": obl, "exhaustive": True, "bound": "7 tag shapes",
            "samples": [{"tag": "NM", "value": 3}]}


# ---- discovered models: every read reaches the model counter once, with its own group ---------------------------------------------------------------
def _forward_counts_problems(seed):
    """the real GraphBasedModelConstructor.forward_counts on a random read -> models relation (a recording counter in place of the real
    one): every read with at least one model is handed over exactly once, with exactly its models and ITS OWN read group; the number of
    reads without a model is reported as unassigned"""
    import random
    import types
    from collections import defaultdict
    gm = native.repo_import("src/graph_based_model_construction.py")
    rng = random.Random(seed)
    groups = ["g%d" % k for k in range(rng.randint(1, 4))]
    reads = ["r%d" % k for k in range(rng.randint(1, 9))]
    group_of = {r: rng.choice(groups) for r in reads}
    models = ["transcript%d.chr1.nic" % k for k in range(rng.randint(1, 4))]
    rel = {r: sorted(rng.sample(models, rng.choice([0, 1, 1, 2, min(3, len(models))]) if len(models) > 1 else rng.choice([0, 1]))) for r in reads}
    calls, unassigned, confirmed = [], [], []
    counter = types.SimpleNamespace(add_read_info_raw=lambda read_id, feature_ids, group_id="NA": calls.append((read_id, sorted(feature_ids), group_id)),
                                    add_unassigned=lambda n=1: unassigned.append(n),
                                    add_confirmed_features=lambda f: confirmed.append(sorted(f)))
    c = gm.GraphBasedModelConstructor.__new__(gm.GraphBasedModelConstructor)
    c.transcript_counter = counter
    c.transcript_read_ids = defaultdict(list)
    order = list(models)
    rng.shuffle(order)
    for m in order:
        rs = [r for r in reads if m in rel[r]]
        rng.shuffle(rs)
        for r in rs:
            c.transcript_read_ids[m].append(types.SimpleNamespace(read_id=r, read_group=group_of[r]))
    c.read_assignment_counts = defaultdict(int, {r: len(rel[r]) for r in reads})
    c.transcript_model_storage = [types.SimpleNamespace(transcript_id=m) for m in models]
    c.forward_counts()
    problems = []
    tag = "reads %s" % sorted((r, group_of[r], rel[r]) for r in reads)
    for r in reads:
        mine = [x for x in calls if x[0] == r]
        if not rel[r]:
            if mine:
                problems.append("%s: %s has no model but is counted: %s" % (tag, r, mine))
        elif len(mine) != 1:
            problems.append("%s: %s is handed to the counter %d times" % (tag, r, len(mine)))
        elif mine[0][1] != rel[r]:
            problems.append("%s: %s is counted for %s" % (tag, r, mine[0][1]))
        elif mine[0][2] != group_of[r]:
            problems.append("%s: %s is counted under group %s" % (tag, r, mine[0][2]))
    if sum(unassigned) != sum(1 for r in reads if not rel[r]):
        problems.append("%s: %s reads reported as unassigned" % (tag, unassigned))
    return problems


def replay_forward_counts(d):
    p = _forward_counts_problems(d["inputs"]["seed"])
    return (not p), "seed %s: %s" % (d["inputs"]["seed"], p[:3] or "every read counted once under its own group")


@bounded("C09.model_counts_groups", ["C09", "C02"], note="the real GraphBasedModelConstructor.forward_counts on random read -> discovered-model relations "
         "(1-9 reads in 1-4 groups, 0-3 models per read): every read with a model reaches the model counter exactly once, with exactly its models "
         "and its own read group; reads without a model are reported as unassigned")
def c09_model_counts(tier, rng):
    n = 400 if tier == "quick" else 20000
    base = rng.randrange(10 ** 9)
    for k in range(n):
        try:
            p = _forward_counts_problems(base + k)
        except Exception as e:
            p = ["exception %s: %s" % (type(e).__name__, e)]
        if p:
            return {"cases": k + 1, "bound": "%d relations" % n, "violations": [{
                "obligation": "C09.model_counts_groups", "inputs": {"seed": base + k}, "observed": p[:3],
                "required": "each read once, its models, its own group", "replay_call": "contracts.c_groups:replay_forward_counts"}]}
    return {"cases": n, "bound": "%d random read -> model relations" % n, "violations": [], "samples": [{"seed": base}]}


# ---- labels of a YAML experiment belong to the files by position --------------------------------------------------------------------------------------
@finite("C09.yaml_labels_by_position", ["C09", "C12"], note="the real InputDataStorage.get_samples_from_yaml on every ordering of 2-4 file names (incl. "
        "orders that are not lexicographic, files in sub-folders) with a label per file: the parsed experiment has exactly the files of the YAML, one library each, "
        "and the k-th file of the YAML carries the k-th label (in whatever order the files are kept); without labels a file is labelled by its base name")
def c09_yaml_labels(tier, rng):
    import contextlib, io, itertools, os, shutil, tempfile
    ids = native.repo_import("src/input_data_storage.py")
    base = os.path.join(os.path.dirname(os.path.dirname(os.path.abspath(__file__))), ".run")
    os.makedirs(base, exist_ok=True)
    d = tempfile.mkdtemp(prefix="ylab", dir=base)
    obl = dis = 0
    viol = []
    try:
        files = ["b.bam", "a.bam", "z/c.bam", "A2.bam"]
        os.makedirs(os.path.join(d, "z"))
        for f in files:
            open(os.path.join(d, f), "w").close()
        for n in (2, 3, 4):
            for order in itertools.permutations(files, n):
                for with_labels in (True, False):
                    obl += 1
                    labels = ["lab_%s" % os.path.basename(f)[0] for f in order]
                    path = os.path.join(d, "in.yaml")
                    with open(path, "w") as f:
                        f.write('[\n  data format: "bam",\n  {\n    name: "E",\n    long read files: [%s]%s\n  }\n]\n'
                                % (", ".join('"%s"' % x for x in order), (',\n    labels: [%s]' % ", ".join('"%s"' % x for x in labels)) if with_labels else ""))
                    s = ids.InputDataStorage.__new__(ids.InputDataStorage)
                    s.experiment_prefix, s.input_type = "RUN", "bam"
                    with contextlib.redirect_stdout(io.StringIO()):
                        sample_files, names, readable, _ill = s.get_samples_from_yaml(path)
                    got_files = [lib[0] for lib in sample_files[0]]
                    want_files = [os.path.normpath(os.path.join(d, x)) for x in order]
                    want_labels = labels if with_labels else [os.path.splitext(os.path.basename(x))[0] for x in order]
                    got_labels = [readable["E"].get(x) for x in want_files]
                    if sorted(got_files) == sorted(want_files) and got_labels == want_labels and all(len(lib) == 1 for lib in sample_files[0]):
                        dis += 1
                    elif len(viol) < 3:
                        viol.append({"obligation": "C09.yaml_labels_by_position.%s.%s" % ("labels" if with_labels else "plain", "_".join(os.path.basename(x) for x in order)),
                                     "inputs": {"files": list(order), "labels": labels if with_labels else None},
                                     "observed": {"files": [os.path.relpath(x, d) for x in got_files], "labels": got_labels},
                                     "required": {"files": list(order), "labels": want_labels}})
    finally:
        shutil.rmtree(d, ignore_errors=True)
    return {"obligations": obl, "discharged": dis, "violations": viol, "cases": obl, "exhaustive": True,
            "bound": "all orderings of 2-4 of 4 files x with / without labels", "samples": [{"files": ["b.bam", "a.bam"], "labels": ["lab_b", "lab_a"]}]}
