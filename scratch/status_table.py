"""prints the numeric status table of DESIGN II.3 from the evidence files of the last run"""
import json, os, sys
V = os.path.dirname(os.path.dirname(os.path.abspath(__file__)))
print("| id | tier | obligations discharged | functions under contract | finite-domain checks (cases) | bounded stand-ins | assumed contracts | solver s | wall s |")
print("|----|------|------------------------|--------------------------|------------------------------|-------------------|-------------------|----------|--------|")
for f in sorted(os.listdir(os.path.join(V, "evidence"))):
    e = json.load(open(os.path.join(V, "evidence", f)))
    c = e["coverage"]
    fin = c.get("finite_domain", [])
    nf = sum(int(x.get("cases", 0) or 0) for x in fin)
    assumed = [t for t in c.get("trusted_base", []) if t.startswith("assumed contract")]
    print("| %s | %s | %d / %d | %d | %d (%d) | %d: %s | %d | %.0f | %.0f |" % (
        e["property_id"], e["tier"], c["discharged"], c["obligations"], len(c.get("functions", [])), len(fin), nf, len(c.get("bounded", [])),
        ", ".join(b["name"].split(".", 1)[1] for b in c.get("bounded", [])), len(assumed), c.get("solver_s", 0), e.get("wall_s", 0)))
