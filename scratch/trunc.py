import sys
sys.path.insert(0, '/verif')
from pyvc import run
run.load_contracts()
from contracts import c_common as cc
U=7
lists=[cc._blocks_of({p+1 for p in range(U) if m>>p&1}) for m in range(1,2**U)]
bad=[]; good=0
for L in lists:
    pts=sorted(cc._pos(L))
    for pa in [-1]+pts:
        for pt in [-1]+pts:
            if pa!=-1 and pt!=-1 and pt>=pa: continue
            try: p=cc._truncate_problems(L,pa,pt)
            except Exception as e: p=[repr(e)]
            if p: bad.append((L,pa,pt,p[0][:90]))
            else: good+=1
print(good,len(bad))
def cls(L,pa,pt):
    starts={a for a,b in L}; ends={b for a,b in L}
    return (pa in starts, pt in ends)
from collections import Counter
print(Counter(cls(L,pa,pt) for L,pa,pt,_ in bad))
for b in bad[:12]: print(b)
print([b for b in bad if cls(*b[:3])==(False,False)][:5])
