#!/usr/bin/env python
"""
Side observation at baseline (independent of the seeded change), property C18, first sentence:
  "The Canonical flag of a read and the Canonical attribute of a transcript model are True exactly when
   every intron has a canonical dinucleotide pair on the reported strand in the reference FASTA ..."

A locus whose reads start at the very first base of the chromosome (alignment reference_start 0; common for
chrM, spike-ins, transcript contigs): the region of the reads is kept 0-based, the reference window of the locus
is requested as set_reference_sequence(0, end) -> chr_record[-1:end] -> an empty string, so with --check_canonical
no read of the locus gets a Canonical= entry and the transcript model gets no Canonical attribute at all,
although all introns are GT..AG on the reported + strand. A second, identical locus further inside the
chromosome (control) gets Canonical=True everywhere.

Run as:  cd <worktree> && /venv/bin/python _seed/side_observation_2.py   (exit 1 = observation reproduced)
"""
import os
import random
import shutil
import subprocess
import sys
import tempfile

import pysam

CHR = "chr1"
CHR_LEN = 12000
FWD = {("GT", "AG"), ("GC", "AG"), ("AT", "AC")}
REV = {("CT", "AC"), ("CT", "GC"), ("GT", "AT")}


def random_genome(length, seed=11):
    rnd = random.Random(seed)
    seq = []
    while len(seq) < length:
        c = rnd.choice("ACGT")
        if len(seq) >= 3 and seq[-1] == c and seq[-2] == c and seq[-3] == c:
            continue
        seq.append(c)
    return seq


def introns_of(exons):
    return [(exons[i][1] + 1, exons[i + 1][0] - 1) for i in range(len(exons) - 1)]


def main():
    worktree = os.path.dirname(os.path.dirname(os.path.abspath(__file__)))
    tmp = tempfile.mkdtemp(prefix="c18_side2_")
    try:
        seq = random_genome(CHR_LEN)
        loci = {"T1": [(1, 200), (501, 700), (1001, 1200), (1501, 1800)],
                "T2": [(6001, 6200), (6501, 6700), (7001, 7200), (7501, 7800)]}
        for exons in loci.values():
            for intron in introns_of(exons):
                seq[intron[0] - 1:intron[0] + 1] = "GT"
                seq[intron[1] - 2:intron[1]] = "AG"
        fasta_path = os.path.join(tmp, "ref.fa")
        with open(fasta_path, "w") as f:
            s = "".join(seq)
            f.write(">%s\n" % CHR)
            for i in range(0, len(s), 60):
                f.write(s[i:i + 60] + "\n")
        pysam.faidx(fasta_path)

        gtf_path = os.path.join(tmp, "ann.gtf")
        with open(gtf_path, "w") as f:
            for n, (t_id, exons) in enumerate(sorted(loci.items())):
                g_id = "G%d" % (n + 1)
                f.write('%s\ttest\tgene\t%d\t%d\t.\t+\t.\tgene_id "%s";\n' % (CHR, exons[0][0], exons[-1][1], g_id))
                f.write('%s\ttest\ttranscript\t%d\t%d\t.\t+\t.\tgene_id "%s"; transcript_id "%s";\n' %
                        (CHR, exons[0][0], exons[-1][1], g_id, t_id))
                for e in exons:
                    f.write('%s\ttest\texon\t%d\t%d\t.\t+\t.\tgene_id "%s"; transcript_id "%s";\n' %
                            (CHR, e[0], e[1], g_id, t_id))

        header = pysam.AlignmentHeader.from_dict({"HD": {"VN": "1.0", "SO": "coordinate"},
                                                  "SQ": [{"SN": CHR, "LN": CHR_LEN}]})
        bam_path = os.path.join(tmp, "reads.bam")
        with pysam.AlignmentFile(bam_path, "wb", header=header) as out:
            for t_id, exons in sorted(loci.items()):
                for k in range(6):
                    a = pysam.AlignedSegment(header)
                    a.query_name = "%s_r%d" % (t_id, k)
                    a.reference_id = 0
                    a.reference_start = exons[0][0] - 1
                    cigar, query = [], ""
                    for i, e in enumerate(exons):
                        if i > 0:
                            cigar.append((3, e[0] - exons[i - 1][1] - 1))
                        cigar.append((0, e[1] - e[0] + 1))
                        query += "".join(seq[e[0] - 1:e[1]])
                    cigar.append((4, 30))
                    query += "A" * 30
                    a.query_sequence = query
                    a.cigartuples = cigar
                    a.flag = 0
                    a.mapping_quality = 60
                    a.query_qualities = pysam.qualitystring_to_array("I" * len(query))
                    out.write(a)
        pysam.index(bam_path)

        home = os.path.join(tmp, "home")
        os.makedirs(home)
        out_dir = os.path.join(tmp, "out")
        env = dict(os.environ)
        env["HOME"] = home
        cmd = [sys.executable, os.path.join(worktree, "isoquant.py"),
               "--reference", fasta_path, "--bam", bam_path, "--data_type", "nanopore",
               "--genedb", gtf_path, "--complete_genedb",
               "-o", out_dir, "--prefix", "S", "-t", "1", "--no_gzip", "--check_canonical"]
        run = subprocess.run(cmd, cwd=worktree, env=env, capture_output=True, text=True)
        if run.returncode != 0:
            print("isoquant.py failed:\n" + run.stdout[-2000:] + run.stderr[-2000:])
            return 2

        fasta = pysam.FastaFile(fasta_path)

        def expected_flag(exons, strand):
            table = FWD if strand == "+" else REV
            return str(all((fasta.fetch(CHR, i[0] - 1, i[0] + 1).upper(), fasta.fetch(CHR, i[1] - 2, i[1]).upper()) in table
                           for i in introns_of(exons)))

        bad = 0
        seen = 0
        for line in open(os.path.join(out_dir, "S", "S.read_assignments.tsv")):
            if line.startswith("#"):
                continue
            v = line.rstrip("\n").split("\t")
            exons = [tuple(map(int, e.split("-"))) for e in v[7].split(",")]
            if len(exons) < 2 or v[2] not in "+-":
                continue
            seen += 1
            reported = v[8].split("Canonical=")[1].split(";")[0] if "Canonical=" in v[8] else "<absent>"
            expected = expected_flag(exons, v[2])
            if reported != expected:
                bad += 1
                print("read %s %s strand %s: Canonical=%s, FASTA says %s -> WRONG" % (v[0], v[7], v[2], reported, expected))
        models = {}
        for line in open(os.path.join(out_dir, "S", "S.transcript_models.gtf")):
            if line.startswith("#"):
                continue
            v = line.rstrip("\n").split("\t")
            if v[2] not in ("transcript", "exon"):
                continue
            t_id = v[8].split('transcript_id "')[1].split('"')[0]
            m = models.setdefault(t_id, {"exons": []})
            if v[2] == "transcript":
                m["strand"], m["attrs"] = v[6], v[8]
            else:
                m["exons"].append((int(v[3]), int(v[4])))
        for t_id, m in sorted(models.items()):
            exons = sorted(m["exons"])
            if len(exons) < 2 or m["strand"] not in "+-":
                continue
            seen += 1
            reported = m["attrs"].split('Canonical "')[1].split('"')[0] if 'Canonical "' in m["attrs"] else "<absent>"
            expected = expected_flag(exons, m["strand"])
            print('model %s %d-%d strand %s: Canonical "%s", FASTA says %s -> %s' %
                  (t_id, exons[0][0], exons[-1][1], m["strand"], reported, expected, "ok" if reported == expected else "WRONG"))
            if reported != expected:
                bad += 1
        if seen == 0:
            print("nothing to compare")
            return 2
        if bad:
            print("FAIL: %d spliced records of the locus at the chromosome start carry no / a wrong Canonical flag" % bad)
            return 1
        print("PASS")
        return 0
    finally:
        shutil.rmtree(tmp, ignore_errors=True)


if __name__ == "__main__":
    sys.exit(main())
