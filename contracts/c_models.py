"""Contracts for transcript models and their printing (C03)."""
from pyvc.api import contract, spec, lemma, record, finite, bounded, enum_from_repo
from pyvc import native, front
from contracts.c_common import WF  # noqa

IV = "tuple[int,int]"
IVS = "list[tuple[int,int]]"
CLASS_HOME = {"TranscriptModel": "src/gene_info.py", "TranscriptModelType": "src/gene_info.py",
              "GraphBasedModelConstructor": "src/graph_based_model_construction.py"}
enum_from_repo("src/gene_info.py", "TranscriptModelType")

contract("src/transcript_printer.py:validate_exons", {"novel_exons": IVS}, returns="bool", props=["C03"],
         # what the printer's filter guarantees for a printed transcript: lexicographically sorted exons with 1 <= start <= end.
         # It does NOT establish disjointness or the chromosome bound; those are obligations of the producers (get_exons etc.)
         ensures=["result == (all((novel_exons[i][0] < novel_exons[j][0]) or (novel_exons[i][0] == novel_exons[j][0] and novel_exons[i][1] <= novel_exons[j][1]) "
                  "for i in range(len(novel_exons)) for j in range(i + 1, len(novel_exons))) and "
                  "all(0 < novel_exons[i][0] <= novel_exons[i][1] for i in range(len(novel_exons))))",
                  "not WF(novel_exons) or len(novel_exons) == 0 or novel_exons[0][0] <= 0 or result"],
         canary="result == WF(novel_exons)")

record("TMParams", {"apa_delta": "int"})
record("ModelCtor", {"params": "rec:TMParams"})
record("TModel", {"exon_blocks": IVS, "transcript_id": "str"})
record("AssignedRead", {"corrected_exons": IVS})


def _gen_ends(rng, n):
    gm = native.repo_import("src/graph_based_model_construction.py")
    gi = native.repo_import("src/gene_info.py")
    import types
    for _ in range(n):
        k = rng.randint(1, 4)
        p = rng.randint(1, 30)
        ex = []
        for _i in range(k):
            a = p + rng.randint(1, 20); b = a + rng.randint(0, 60); ex.append((a, b)); p = b
        reads = []
        for _r in range(rng.randint(0, 5)):
            s = ex[0][0] + rng.randint(-15, 40); e = ex[-1][1] + rng.randint(-40, 15)
            if s <= e:
                reads.append(types.SimpleNamespace(corrected_exons=[(s, max(s, min(e, ex[0][1])))] + ex[1:-1] + [(min(e, max(s, ex[-1][0])), e)] if k > 1 else [(s, e)]))
        ctor = gm.GraphBasedModelConstructor.__new__(gm.GraphBasedModelConstructor)
        ctor.params = types.SimpleNamespace(apa_delta=rng.choice([0, 5, 50]))
        m = gi.TranscriptModel("chr1", "+", "t", "g", list(ex), gi.TranscriptModelType.novel_not_in_catalog)
        yield {"self": ctor, "transcript_model": m, "assigned_reads": reads}


contract("src/graph_based_model_construction.py:GraphBasedModelConstructor.correct_novel_transcript_ends",
         {"self": "rec:ModelCtor", "transcript_model": "rec:TModel", "assigned_reads": "list[rec:AssignedRead]"},
         returns="none", props=["C03"], modifies=["transcript_model.exon_blocks"],
         locals={"new_transcript_start": "opt[int]", "new_transcript_end": "opt[int]", "read_starts": "set[int]",
                 "read_ends": "defaultdict[int,int,0]"},
         requires=["WF(transcript_model.exon_blocks)", "len(transcript_model.exon_blocks) >= 1", "transcript_model.exon_blocks[0][0] >= 1",
                   "all(len(assigned_reads[i].corrected_exons) >= 1 for i in range(len(assigned_reads)))"],
         ensures=[
             # ends only move inward, inside the terminal exons; inner coordinates never change; the model stays well-formed
             "len(transcript_model.exon_blocks) == len(old(transcript_model.exon_blocks))",
             "all(transcript_model.exon_blocks[k][0] == old(transcript_model.exon_blocks)[k][0] for k in range(1, len(transcript_model.exon_blocks)))",
             "all(transcript_model.exon_blocks[k][1] == old(transcript_model.exon_blocks)[k][1] for k in range(len(transcript_model.exon_blocks) - 1))",
             "old(transcript_model.exon_blocks)[0][0] <= transcript_model.exon_blocks[0][0] <= old(transcript_model.exon_blocks)[0][1]",
             "old(transcript_model.exon_blocks)[len(transcript_model.exon_blocks) - 1][0] <= transcript_model.exon_blocks[len(transcript_model.exon_blocks) - 1][1] "
             "<= old(transcript_model.exon_blocks)[len(transcript_model.exon_blocks) - 1][1]",
             "WF(transcript_model.exon_blocks)", "transcript_model.exon_blocks[0][0] >= 1"],
         loops={0: {"inv": ["transcript_model.exon_blocks == old(transcript_model.exon_blocks)"],
                    "locals": {"read_exons": IVS}},
                1: {"inv": ["new_transcript_start is None", "transcript_model.exon_blocks == old(transcript_model.exon_blocks)"]},
                2: {"inv": ["new_transcript_end is None", "len(transcript_model.exon_blocks) == len(old(transcript_model.exon_blocks))"]}},
         gen=_gen_ends)

record("GeneInfoRef", {"chr_id": "str", "isoform_strands": "dict[str,str]", "gene_id_map": "dict[str,str]",
                       "all_isoforms_exons": "dict[str,list[tuple[int,int]]]", "sources": "dict[str,str]",
                       "other_features": "dict[str,list[tuple[int,int,str]]]"})
record("TranscriptModel", {"chr_id": "str", "strand": "str", "transcript_id": "str", "gene_id": "str", "exon_blocks": IVS,
                           "transcript_type": "enum:TranscriptModelType", "source": "str",
                           "other_features": "list[tuple[int,int,str]]", "additional_info": "dict[str,str]", "intron_path": "any"})

contract("src/gene_info.py:TranscriptModel.from_reference_transcript", {"cls": None, "gene_info": "rec:GeneInfoRef", "isoform_id": "str"},
         returns="rec:TranscriptModel", props=["C03"], native=False,
         requires=["isoform_id in gene_info.isoform_strands and isoform_id in gene_info.gene_id_map and isoform_id in gene_info.all_isoforms_exons "
                   "and isoform_id in gene_info.sources and isoform_id in gene_info.other_features"],
         # a transcript reported under a reference id carries exactly the reference exon coordinates, strand, gene and source
         ensures=["result.exon_blocks == gene_info.all_isoforms_exons[isoform_id]", "result.strand == gene_info.isoform_strands[isoform_id]",
                  "result.gene_id == gene_info.gene_id_map[isoform_id]", "result.transcript_id == isoform_id",
                  "result.chr_id == gene_info.chr_id", "result.source == gene_info.sources[isoform_id]",
                  "result.transcript_type == TranscriptModelType.known",
                  "result.other_features == gene_info.other_features[isoform_id]"],
         canary="result.transcript_type == TranscriptModelType.novel_in_catalog")


# ---- GFFPrinter.dump: string assembly and gene bookkeeping, bounded natively --------------------------------------------------------
def _dump_case(seed):
    import os, random, shutil, tempfile, types
    rng = random.Random(seed)
    tp = native.repo_import("src/transcript_printer.py")
    gi_mod = native.repo_import("src/gene_info.py")
    idp = native.repo_import("src/id_policy.py")
    base = os.path.join(os.path.dirname(os.path.dirname(os.path.abspath(__file__))), ".run")
    os.makedirs(base, exist_ok=True)
    d = tempfile.mkdtemp(prefix="gff", dir=base)
    problems = []
    try:
        pr = tp.GFFPrinter(d, "s", idp.FeatureIdStorage(idp.SimpleIDDistributor()), output_r2t=False)
        models_all = []
        for call in range(rng.randint(1, 2)):
            models = []
            for m in range(rng.randint(1, 4)):
                k = rng.randint(1, 4)
                p = rng.randint(1, 400)
                ex = []
                for _ in range(k):
                    a = p + rng.randint(1, 30); b = a + rng.randint(0, 50); ex.append((a, b)); p = b
                gene = "g%d_%d" % (call, rng.randint(0, 1))
                models.append(gi_mod.TranscriptModel("chr1", rng.choice("+-"), "t%d_%d" % (call, m), gene, ex,
                                                     gi_mod.TranscriptModelType.novel_not_in_catalog))
            ginfo = gi_mod.GeneInfo.from_models(models, 0) if rng.random() < .5 else gi_mod.GeneInfo.from_region("chr1", 1, 2000)
            pr.dump(ginfo, models)
            models_all += models
        pr.out_gff.flush()
        genes, transcripts, exons = {}, {}, {}
        for line in open(pr.model_fname):
            if line.startswith("#"):
                continue
            f = line.rstrip("\n").split("\t")
            attrs = dict((kv.strip().split(" ", 1)[0], kv.strip().split(" ", 1)[1].strip('"')) for kv in f[8].split(";") if kv.strip())
            rec = (f[0], int(f[3]), int(f[4]), f[6])
            if f[2] == "gene":
                if attrs["gene_id"] in genes:
                    problems.append("gene %s printed twice" % attrs["gene_id"])
                genes[attrs["gene_id"]] = rec
            elif f[2] == "transcript":
                if attrs["transcript_id"] in transcripts:
                    problems.append("transcript %s printed twice" % attrs["transcript_id"])
                transcripts[attrs["transcript_id"]] = rec + (attrs["gene_id"],)
            elif f[2] == "exon":
                exons.setdefault(attrs["transcript_id"], []).append((int(f[3]), int(f[4]), attrs.get("exon_id")))
        for m in models_all:
            t = transcripts.get(m.transcript_id)
            if t is None:
                problems.append("transcript %s missing" % m.transcript_id)
                continue
            if (t[1], t[2]) != (m.exon_blocks[0][0], m.exon_blocks[-1][1]) or t[3] != m.strand or t[4] != m.gene_id:
                problems.append("transcript record %s does not span its exons / strand / gene" % m.transcript_id)
            if sorted((a, b) for a, b, _ in exons.get(m.transcript_id, [])) != sorted(m.exon_blocks):
                problems.append("exon records of %s differ from the model" % m.transcript_id)
            g = genes.get(m.gene_id)
            if g is None:
                problems.append("gene %s missing" % m.gene_id)
        ids = {}
        for t, exs in exons.items():
            strand = transcripts[t][3] if t in transcripts else "."
            for a, b, eid in exs:
                key = ("chr1", a, b, strand)
                if ids.setdefault(key, eid) != eid:
                    problems.append("exon %s has two ids" % (key,))
        inv = {}
        for key, eid in ids.items():
            if inv.setdefault(eid, key) != key:
                problems.append("exon id %s names two exons" % eid)
    finally:
        shutil.rmtree(d, ignore_errors=True)
    return problems


def replay_dump(d):
    p = _dump_case(d["inputs"]["seed"])
    return (not p), "seed %s: %s" % (d["inputs"]["seed"], p or "GTF consistent")


@bounded("C03.gff_dump", ["C03", "C17"], note="the real GFFPrinter.dump on random model sets (1-2 dump calls, 1-4 models of 1-4 exons, "
         "two genes per call): every transcript once and spanning exactly its exons with its strand and gene, every gene once, exon "
         "records equal to the model, exon_id functional and injective; parsed back from the written GTF")
def c03_dump(tier, rng):
    n = 150 if tier == "quick" else 6000
    base = rng.randrange(10 ** 9)
    for k in range(n):
        try:
            p = _dump_case(base + k)
        except Exception as e:
            p = ["exception %s: %s" % (type(e).__name__, e)]
        if p:
            return {"cases": k + 1, "bound": "%d runs" % n, "violations": [{
                "obligation": "C03.gff_dump", "inputs": {"seed": base + k}, "observed": p[:3], "required": "consistent GTF",
                "replay_call": "contracts.c_models:replay_dump"}]}
    return {"cases": n, "bound": "%d random dumps" % n, "violations": [], "samples": [{"seed": base}]}
